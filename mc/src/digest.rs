//! Ordered per-case transcript digests (engine E6: build-pair differencing for C17).
//! FNV-1a 64 over everything appended; two lanes with different offsets to make 128 bits.

pub struct Transcript {
    a: u64,
    b: u64,
    pub len: u64,
    pub keep: Option<Vec<u8>>,
}
const P: u64 = 0x100000001b3;
impl Transcript {
    pub fn new() -> Self {
        Transcript { a: 0xcbf29ce484222325, b: 0x84222325cbf29ce4, len: 0, keep: None }
    }
    pub fn reset(&mut self) {
        self.a = 0xcbf29ce484222325;
        self.b = 0x84222325cbf29ce4;
        self.len = 0;
        if let Some(k) = self.keep.as_mut() {
            k.clear();
        }
    }
    #[inline]
    pub fn bytes(&mut self, x: &[u8]) {
        for &c in x {
            self.a = (self.a ^ c as u64).wrapping_mul(P);
            self.b = (self.b ^ (c as u64).wrapping_add(0x9e)).wrapping_mul(P).rotate_left(5);
        }
        self.len += x.len() as u64;
        if let Some(k) = self.keep.as_mut() {
            k.extend_from_slice(x);
        }
    }
    #[inline]
    pub fn str(&mut self, s: &str) {
        self.bytes(s.as_bytes());
        self.bytes(&[0xff]);
    }
    #[inline]
    pub fn u64(&mut self, x: u64) {
        self.bytes(&x.to_le_bytes());
    }
    pub fn digest_hex(&self) -> String {
        format!("{:016x}{:016x}:{}", self.a, self.b, self.len)
    }
}
