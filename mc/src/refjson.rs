//! Reference RFC 8259 recogniser / parser.  Deliberately boring: byte-at-a-time recursive
//! descent, UTF-8 judged by `std::str::from_utf8`, numbers valued by `str::parse`.
//!
//! Modes:
//!  * `Decode`  - C02 first clause: grammar + UTF-8 + every \u escape decodes to a scalar
//!                (surrogates paired) + every number finite as f64.
//!  * `Grammar` - C02 second clause: grammar + UTF-8 only (lone surrogate escapes and huge
//!                numbers are not grammar errors).  Decoded strings are still produced, with
//!                U+FFFD for an unpaired surrogate escape.
//!  * `Lossy`   - like Grammar, and invalid UTF-8 inside strings is tolerated and decoded as
//!                `String::from_utf8_lossy` does.

#[derive(Clone, Copy, PartialEq, Eq, Debug)]
pub enum Mode {
    Decode,
    Grammar,
    Lossy,
}

#[derive(Clone, Copy, PartialEq, Eq, Debug, PartialOrd, Ord)]
pub enum Reason {
    Empty,
    Eof,
    InvalidUtf8,
    ControlInString,
    BadEscape,
    BadHex,
    LoneSurrogate,
    BadNumber,
    NumberNotFinite,
    BadLiteral,
    Unexpected,
    TrailingChars,
    TooDeep,
}

#[derive(Clone, Copy, Debug, PartialEq)]
pub enum Num {
    U(u64),
    I(i64),
    F(f64),
}

#[derive(Clone, Debug, PartialEq)]
pub enum Kind {
    Null,
    Bool(bool),
    Num(Num),
    Str { val: String, has_esc: bool },
    Arr(Vec<Node>),
    /// members in source order, duplicates kept; key node is always a `Str`
    Obj(Vec<(Node, Node)>),
}

#[derive(Clone, Debug, PartialEq)]
pub struct Node {
    pub start: usize,
    pub end: usize,
    pub kind: Kind,
}

#[derive(Clone, Copy, Debug, PartialEq, Eq)]
pub struct Reject {
    pub reason: Reason,
    pub at: usize,
}

pub const MAX_DEPTH: usize = 100_000;

struct P<'a> {
    s: &'a [u8],
    i: usize,
    mode: Mode,
    depth: usize,
}

fn rej<T>(reason: Reason, at: usize) -> Result<T, Reject> {
    Err(Reject { reason, at })
}

#[inline]
pub fn is_ws(b: u8) -> bool {
    matches!(b, b' ' | b'\t' | b'\n' | b'\r')
}

impl<'a> P<'a> {
    fn ws(&mut self) {
        while self.i < self.s.len() && is_ws(self.s[self.i]) {
            self.i += 1;
        }
    }

    fn value(&mut self) -> Result<Node, Reject> {
        self.ws();
        if self.i >= self.s.len() {
            return rej(Reason::Eof, self.s.len());
        }
        let start = self.i;
        match self.s[self.i] {
            b'n' => self.lit(b"null", Kind::Null),
            b't' => self.lit(b"true", Kind::Bool(true)),
            b'f' => self.lit(b"false", Kind::Bool(false)),
            b'"' => self.string(),
            b'-' | b'0'..=b'9' => self.number(),
            b'[' => {
                self.depth += 1;
                if self.depth > MAX_DEPTH {
                    return rej(Reason::TooDeep, self.i);
                }
                self.i += 1;
                let mut items = vec![];
                self.ws();
                if self.i < self.s.len() && self.s[self.i] == b']' {
                    self.i += 1;
                    self.depth -= 1;
                    return Ok(Node { start, end: self.i, kind: Kind::Arr(items) });
                }
                loop {
                    let v = self.value()?;
                    items.push(v);
                    self.ws();
                    if self.i >= self.s.len() {
                        return rej(Reason::Eof, self.s.len());
                    }
                    match self.s[self.i] {
                        b',' => self.i += 1,
                        b']' => {
                            self.i += 1;
                            self.depth -= 1;
                            return Ok(Node { start, end: self.i, kind: Kind::Arr(items) });
                        }
                        _ => return rej(Reason::Unexpected, self.i),
                    }
                }
            }
            b'{' => {
                self.depth += 1;
                if self.depth > MAX_DEPTH {
                    return rej(Reason::TooDeep, self.i);
                }
                self.i += 1;
                let mut items = vec![];
                self.ws();
                if self.i < self.s.len() && self.s[self.i] == b'}' {
                    self.i += 1;
                    self.depth -= 1;
                    return Ok(Node { start, end: self.i, kind: Kind::Obj(items) });
                }
                loop {
                    self.ws();
                    if self.i >= self.s.len() {
                        return rej(Reason::Eof, self.s.len());
                    }
                    if self.s[self.i] != b'"' {
                        return rej(Reason::Unexpected, self.i);
                    }
                    let k = self.string()?;
                    self.ws();
                    if self.i >= self.s.len() {
                        return rej(Reason::Eof, self.s.len());
                    }
                    if self.s[self.i] != b':' {
                        return rej(Reason::Unexpected, self.i);
                    }
                    self.i += 1;
                    let v = self.value()?;
                    items.push((k, v));
                    self.ws();
                    if self.i >= self.s.len() {
                        return rej(Reason::Eof, self.s.len());
                    }
                    match self.s[self.i] {
                        b',' => self.i += 1,
                        b'}' => {
                            self.i += 1;
                            self.depth -= 1;
                            return Ok(Node { start, end: self.i, kind: Kind::Obj(items) });
                        }
                        _ => return rej(Reason::Unexpected, self.i),
                    }
                }
            }
            _ => rej(Reason::Unexpected, self.i),
        }
    }

    fn lit(&mut self, w: &[u8], k: Kind) -> Result<Node, Reject> {
        let start = self.i;
        for (j, &c) in w.iter().enumerate() {
            if start + j >= self.s.len() {
                return rej(Reason::Eof, self.s.len());
            }
            if self.s[start + j] != c {
                return rej(Reason::BadLiteral, start + j);
            }
        }
        self.i += w.len();
        Ok(Node { start, end: self.i, kind: k })
    }

    fn hex4(&mut self) -> Result<u32, Reject> {
        let mut v = 0u32;
        for _ in 0..4 {
            if self.i >= self.s.len() {
                return rej(Reason::Eof, self.s.len());
            }
            let c = self.s[self.i];
            let d = match c {
                b'0'..=b'9' => c - b'0',
                b'a'..=b'f' => c - b'a' + 10,
                b'A'..=b'F' => c - b'A' + 10,
                _ => return rej(Reason::BadHex, self.i),
            };
            v = v * 16 + d as u32;
            self.i += 1;
        }
        Ok(v)
    }

    fn string(&mut self) -> Result<Node, Reject> {
        let start = self.i;
        debug_assert_eq!(self.s[self.i], b'"');
        self.i += 1;
        let mut out: Vec<u8> = vec![];
        let mut has_esc = false;
        loop {
            if self.i >= self.s.len() {
                return rej(Reason::Eof, self.s.len());
            }
            let c = self.s[self.i];
            match c {
                b'"' => {
                    self.i += 1;
                    let val = match self.mode {
                        Mode::Lossy => String::from_utf8_lossy(&out).into_owned(),
                        _ => String::from_utf8(out).expect("validated piecewise"),
                    };
                    return Ok(Node { start, end: self.i, kind: Kind::Str { val, has_esc } });
                }
                b'\\' => {
                    has_esc = true;
                    let esc_at = self.i;
                    self.i += 1;
                    if self.i >= self.s.len() {
                        return rej(Reason::Eof, self.s.len());
                    }
                    let e = self.s[self.i];
                    self.i += 1;
                    match e {
                        b'"' => out.push(b'"'),
                        b'\\' => out.push(b'\\'),
                        b'/' => out.push(b'/'),
                        b'b' => out.push(8),
                        b'f' => out.push(12),
                        b'n' => out.push(b'\n'),
                        b'r' => out.push(b'\r'),
                        b't' => out.push(b'\t'),
                        b'u' => {
                            let hi = self.hex4()?;
                            let mut push_cp = |cp: u32, out: &mut Vec<u8>| {
                                let ch = char::from_u32(cp).unwrap_or('\u{fffd}');
                                let mut b = [0u8; 4];
                                out.extend_from_slice(ch.encode_utf8(&mut b).as_bytes());
                            };
                            if (0xD800..0xDC00).contains(&hi) {
                                // need \uDC00..DFFF next
                                let save = self.i;
                                let mut paired = false;
                                if self.i + 1 < self.s.len()
                                    && self.s[self.i] == b'\\'
                                    && self.s[self.i + 1] == b'u'
                                {
                                    self.i += 2;
                                    // in Grammar/Lossy mode a bad hex after \u is still a grammar error,
                                    // reported when that escape is scanned on its own below
                                    match self.hex4() {
                                        Ok(lo) if (0xDC00..0xE000).contains(&lo) => {
                                            let cp = 0x10000 + ((hi - 0xD800) << 10) + (lo - 0xDC00);
                                            push_cp(cp, &mut out);
                                            paired = true;
                                        }
                                        Ok(_) => {
                                            self.i = save;
                                        }
                                        Err(e) => {
                                            if self.mode == Mode::Decode {
                                                // in decode mode the lone surrogate is the first violation
                                                let _ = e;
                                            }
                                            self.i = save;
                                        }
                                    }
                                }
                                if !paired {
                                    if self.mode == Mode::Decode {
                                        return rej(Reason::LoneSurrogate, esc_at);
                                    }
                                    push_cp(0xFFFD, &mut out);
                                }
                            } else if (0xDC00..0xE000).contains(&hi) {
                                if self.mode == Mode::Decode {
                                    return rej(Reason::LoneSurrogate, esc_at);
                                }
                                push_cp(0xFFFD, &mut out);
                            } else {
                                push_cp(hi, &mut out);
                            }
                        }
                        _ => return rej(Reason::BadEscape, self.i - 1),
                    }
                }
                0..=0x1f => return rej(Reason::ControlInString, self.i),
                0x20..=0x7f => {
                    out.push(c);
                    self.i += 1;
                }
                _ => {
                    // multi-byte: std decides
                    let mut ok = 0;
                    for k in 2..=4 {
                        if self.i + k <= self.s.len()
                            && std::str::from_utf8(&self.s[self.i..self.i + k]).is_ok()
                        {
                            ok = k;
                            break;
                        }
                    }
                    if ok == 0 {
                        if self.mode == Mode::Lossy {
                            out.push(c);
                            self.i += 1;
                        } else {
                            return rej(Reason::InvalidUtf8, self.i);
                        }
                    } else {
                        out.extend_from_slice(&self.s[self.i..self.i + ok]);
                        self.i += ok;
                    }
                }
            }
        }
    }

    fn number(&mut self) -> Result<Node, Reject> {
        let start = self.i;
        let s = self.s;
        let n = s.len();
        let mut i = self.i;
        let mut is_int = true;
        let neg = s[i] == b'-';
        if neg {
            i += 1;
        }
        if i >= n {
            return rej(Reason::Eof, n);
        }
        match s[i] {
            b'0' => i += 1,
            b'1'..=b'9' => {
                while i < n && s[i].is_ascii_digit() {
                    i += 1;
                }
            }
            _ => return rej(Reason::BadNumber, i),
        }
        if i < n && s[i] == b'.' {
            is_int = false;
            i += 1;
            if i >= n {
                return rej(Reason::Eof, n);
            }
            if !s[i].is_ascii_digit() {
                return rej(Reason::BadNumber, i);
            }
            while i < n && s[i].is_ascii_digit() {
                i += 1;
            }
        }
        if i < n && (s[i] == b'e' || s[i] == b'E') {
            is_int = false;
            i += 1;
            if i < n && (s[i] == b'+' || s[i] == b'-') {
                i += 1;
            }
            if i >= n {
                return rej(Reason::Eof, n);
            }
            if !s[i].is_ascii_digit() {
                return rej(Reason::BadNumber, i);
            }
            while i < n && s[i].is_ascii_digit() {
                i += 1;
            }
        }
        self.i = i;
        let lit = std::str::from_utf8(&s[start..i]).unwrap();
        let num = classify_number(lit, is_int, neg);
        if let Num::F(f) = num {
            if !f.is_finite() && self.mode == Mode::Decode {
                return rej(Reason::NumberNotFinite, start);
            }
        }
        Ok(Node { start, end: i, kind: Kind::Num(num) })
    }
}

/// The classification rule of C07 with values from Rust std.
pub fn classify_number(lit: &str, is_int: bool, neg: bool) -> Num {
    if is_int {
        if !neg {
            if let Ok(u) = lit.parse::<u64>() {
                return Num::U(u);
            }
        } else if let Ok(v) = lit.parse::<i64>() {
            return Num::I(v);
        }
    }
    Num::F(lit.parse::<f64>().expect("grammar-valid number parses in std"))
}

/// is `lit` (whole string) a JSON number; returns (is_int, neg)
pub fn number_shape(lit: &[u8]) -> Option<(bool, bool)> {
    let mut p = P { s: lit, i: 0, mode: Mode::Grammar, depth: 0 };
    if lit.is_empty() || !(lit[0] == b'-' || lit[0].is_ascii_digit()) {
        return None;
    }
    match p.number() {
        Ok(n) if n.end == lit.len() => {
            let is_int = !lit.iter().any(|c| matches!(c, b'.' | b'e' | b'E'));
            Some((is_int, lit[0] == b'-'))
        }
        _ => None,
    }
}

/// Whole document: optional whitespace, one value, optional whitespace.
pub fn parse_doc(s: &[u8], mode: Mode) -> Result<Node, Reject> {
    let mut p = P { s, i: 0, mode, depth: 0 };
    p.ws();
    if p.i >= s.len() {
        return rej(Reason::Empty, s.len());
    }
    let v = p.value()?;
    p.ws();
    if p.i < s.len() {
        return rej(Reason::TrailingChars, p.i);
    }
    Ok(v)
}

/// One value starting at or after `pos` (leading whitespace skipped); nothing after it is
/// looked at.  Returns the node; `node.end` is where the value stops.
pub fn parse_value_at(s: &[u8], pos: usize, mode: Mode) -> Result<Node, Reject> {
    let mut p = P { s, i: pos, mode, depth: 0 };
    p.ws();
    if p.i >= s.len() {
        return rej(if pos == 0 { Reason::Empty } else { Reason::Eof }, s.len());
    }
    p.value()
}

/// `true` when `s` can still be extended to an accepted document (or is one).
pub fn viable_prefix(s: &[u8], mode: Mode) -> bool {
    match parse_doc(s, mode) {
        Ok(_) => true,
        Err(r) => (r.reason == Reason::Eof || r.reason == Reason::Empty) && r.at == s.len(),
    }
}

impl Node {
    pub fn text<'a>(&self, src: &'a [u8]) -> &'a [u8] {
        &src[self.start..self.end]
    }
    pub fn type_name(&self) -> &'static str {
        match self.kind {
            Kind::Null => "null",
            Kind::Bool(_) => "bool",
            Kind::Num(_) => "number",
            Kind::Str { .. } => "string",
            Kind::Arr(_) => "array",
            Kind::Obj(_) => "object",
        }
    }
    pub fn count_nodes(&self) -> usize {
        match &self.kind {
            Kind::Arr(a) => 1 + a.iter().map(|n| n.count_nodes()).sum::<usize>(),
            Kind::Obj(o) => 1 + o.iter().map(|(_, v)| v.count_nodes()).sum::<usize>(),
            _ => 1,
        }
    }
    pub fn key_str(&self) -> &str {
        match &self.kind {
            Kind::Str { val, .. } => val,
            _ => panic!("key is not a string"),
        }
    }
    pub fn has_duplicate_keys(&self) -> bool {
        match &self.kind {
            Kind::Arr(a) => a.iter().any(|n| n.has_duplicate_keys()),
            Kind::Obj(o) => {
                for (i, (k, v)) in o.iter().enumerate() {
                    if v.has_duplicate_keys() {
                        return true;
                    }
                    for (k2, _) in &o[..i] {
                        if k2.key_str() == k.key_str() {
                            return true;
                        }
                    }
                }
                false
            }
            _ => false,
        }
    }
    /// canonical dump (order preserved, numbers by class and bits)
    pub fn dump(&self, out: &mut String) {
        match &self.kind {
            Kind::Null => out.push_str("null"),
            Kind::Bool(b) => out.push_str(if *b { "true" } else { "false" }),
            Kind::Num(Num::U(u)) => out.push_str(&format!("u{}", u)),
            Kind::Num(Num::I(i)) => out.push_str(&format!("i{}", i)),
            Kind::Num(Num::F(f)) => out.push_str(&format!("f{:016x}", f.to_bits())),
            Kind::Str { val, .. } => out.push_str(&format!("{:?}", val)),
            Kind::Arr(a) => {
                out.push('[');
                for (i, x) in a.iter().enumerate() {
                    if i > 0 {
                        out.push(',');
                    }
                    x.dump(out);
                }
                out.push(']');
            }
            Kind::Obj(o) => {
                out.push('{');
                for (i, (k, v)) in o.iter().enumerate() {
                    if i > 0 {
                        out.push(',');
                    }
                    out.push_str(&format!("{:?}:", k.key_str()));
                    v.dump(out);
                }
                out.push('}');
            }
        }
    }
    pub fn dumps(&self) -> String {
        let mut s = String::new();
        self.dump(&mut s);
        s
    }
}

#[derive(Clone, Debug, PartialEq, Eq)]
pub enum Seg {
    Key(String),
    Idx(usize),
}

/// Reference path walker (first member wins on duplicate names).
pub fn walk<'n>(root: &'n Node, path: &[Seg]) -> Option<&'n Node> {
    let mut cur = root;
    for seg in path {
        match (seg, &cur.kind) {
            (Seg::Key(k), Kind::Obj(o)) => {
                cur = o.iter().find(|(kn, _)| kn.key_str() == k).map(|(_, v)| v)?;
            }
            (Seg::Idx(i), Kind::Arr(a)) => {
                cur = a.get(*i)?;
            }
            _ => return None,
        }
    }
    Some(cur)
}

/// all paths of a tree (including the root path)
pub fn all_paths(root: &Node) -> Vec<Vec<Seg>> {
    fn rec(n: &Node, cur: &mut Vec<Seg>, out: &mut Vec<Vec<Seg>>) {
        out.push(cur.clone());
        match &n.kind {
            Kind::Arr(a) => {
                for (i, x) in a.iter().enumerate() {
                    cur.push(Seg::Idx(i));
                    rec(x, cur, out);
                    cur.pop();
                }
            }
            Kind::Obj(o) => {
                let mut seen: Vec<&str> = vec![];
                for (k, v) in o {
                    if seen.contains(&k.key_str()) {
                        continue;
                    }
                    seen.push(k.key_str());
                    cur.push(Seg::Key(k.key_str().to_string()));
                    rec(v, cur, out);
                    cur.pop();
                }
            }
            _ => {}
        }
    }
    let mut out = vec![];
    rec(root, &mut vec![], &mut out);
    out
}

/// Self-check of the reference against serde_json where the two specifications coincide
/// (Decode mode, accept/reject only).  A disagreement is a machinery error.
pub fn selfcheck_against_serde_json(s: &[u8]) -> Result<(), String> {
    let mine = parse_doc(s, Mode::Decode);
    let theirs = serde_json::from_slice::<serde_json::Value>(s);
    // serde_json: recursion limit 128; its f64 out-of-range detection equals "not finite"
    match (&mine, &theirs) {
        (Ok(_), Ok(_)) => Ok(()),
        (Err(_), Err(_)) => Ok(()),
        (Ok(n), Err(e)) => {
            if depth_of(n) >= 127 {
                return Ok(());
            }
            Err(format!("refjson accepts, serde_json rejects ({e}): {:?}", String::from_utf8_lossy(s)))
        }
        (Err(r), Ok(_)) => Err(format!(
            "refjson rejects ({:?}@{}), serde_json accepts: {:?}",
            r.reason,
            r.at,
            String::from_utf8_lossy(s)
        )),
    }
}

pub fn depth_of(n: &Node) -> usize {
    match &n.kind {
        Kind::Arr(a) => 1 + a.iter().map(depth_of).max().unwrap_or(0),
        Kind::Obj(o) => 1 + o.iter().map(|(_, v)| depth_of(v)).max().unwrap_or(0),
        _ => 0,
    }
}
