//! Enumeration engine shared by every check.
//!
//! A check is a list of *families*; a family is an indexable finite space of cases
//! (`count`, `run(idx)`).  The engine enumerates **every** index of every family, split
//! over worker processes (chunks of `CHUNK` indices, chunk c belongs to shard c mod N).
//! Each worker publishes the case it is executing in a shared mapping, so that a worker
//! that dies (signal, abort, stack overflow) is attributed to one case, which is then
//! replayed twice in fresh processes before it is believed.
//!
//! Exit codes of the whole run: 0 = property held on everything enumerated,
//! 1 = at least one VIOLATION line, 2 = machinery failure.

use std::{
    collections::BTreeMap,
    io::Write,
    panic::{catch_unwind, AssertUnwindSafe},
    path::{Path, PathBuf},
    process::{Command, Stdio},
    time::Instant,
};

use serde_json::{json, Value as J};

pub const CHUNK: u64 = 64;
pub const MAX_VIOL_PER_CLASS: u64 = 3;
pub const MAX_SAMPLES: usize = 6;
pub const MAX_CRASHES_PER_SHARD: u32 = 12;
pub const MAX_CRASH_REPLAYS: usize = 12;

#[derive(Clone, Copy, PartialEq, Eq, Debug)]
pub enum Tier {
    Quick,
    Thorough,
}
impl Tier {
    pub fn name(self) -> &'static str {
        match self {
            Tier::Quick => "quick",
            Tier::Thorough => "thorough",
        }
    }
    /// pick by tier
    pub fn pick<T>(self, q: T, t: T) -> T {
        match self {
            Tier::Quick => q,
            Tier::Thorough => t,
        }
    }
}

pub struct Family {
    pub name: String,
    pub count: u64,
    pub run: Box<dyn Fn(u64, &mut Ctx)>,
}

impl Family {
    pub fn new(name: &str, count: u64, run: impl Fn(u64, &mut Ctx) + 'static) -> Family {
        Family { name: name.to_string(), count, run: Box::new(run) }
    }
    /// a family over a materialised list of cases
    pub fn of_vec<T: 'static>(
        name: &str,
        items: Vec<T>,
        run: impl Fn(&T, &mut Ctx) + 'static,
    ) -> Family {
        let n = items.len() as u64;
        Family::new(name, n, move |i, ctx| run(&items[i as usize], ctx))
    }
}

#[derive(Clone, Debug)]
pub struct Violation {
    pub class: String,
    pub family: String,
    pub idx: u64,
    pub detail: J,
}

/// Per-worker accumulation of what was covered.
pub struct Ctx {
    pub prop: String,
    pub tier: Tier,
    pub variant: String,
    pub states: u64,
    pub transitions: u64,
    pub nontrivial: u64,
    pub outcomes: BTreeMap<String, u64>,
    pub viol_counts: BTreeMap<String, u64>,
    pub violations: Vec<Violation>,
    pub samples: Vec<J>,
    pub notes: BTreeMap<String, u64>,
    pub cur_family: String,
    pub cur_idx: u64,
    pub verbose: bool,
    viol_sink: Option<std::fs::File>,
    pub transcript: Option<crate::digest::Transcript>,
}

impl Ctx {
    pub fn new(prop: &str, tier: Tier, variant: &str) -> Ctx {
        Ctx {
            prop: prop.to_string(),
            tier,
            variant: variant.to_string(),
            states: 0,
            transitions: 0,
            nontrivial: 0,
            outcomes: BTreeMap::new(),
            viol_counts: BTreeMap::new(),
            violations: vec![],
            samples: vec![],
            notes: BTreeMap::new(),
            cur_family: String::new(),
            cur_idx: 0,
            verbose: false,
            viol_sink: None,
            transcript: None,
        }
    }
    /// one distinct execution (input x framing x entry point, or history, or schedule)
    #[inline]
    pub fn state(&mut self) {
        self.states += 1;
    }
    /// one subject call
    #[inline]
    pub fn call(&mut self) {
        self.transitions += 1;
    }
    #[inline]
    pub fn calls(&mut self, n: u64) {
        self.transitions += n;
    }
    #[inline]
    pub fn nontrivial(&mut self) {
        self.nontrivial += 1;
    }
    /// observed-outcome histogram ("one outcome from many executions means nothing collided")
    #[inline]
    pub fn outcome(&mut self, class: &str) {
        if let Some(c) = self.outcomes.get_mut(class) {
            *c += 1;
        } else {
            self.outcomes.insert(class.to_string(), 1);
        }
    }
    pub fn note(&mut self, k: &str, n: u64) {
        *self.notes.entry(k.to_string()).or_insert(0) += n;
    }
    pub fn sample(&mut self, f: impl FnOnce() -> J) {
        if self.samples.len() < MAX_SAMPLES && (self.cur_idx % 7 == 3 || self.verbose) {
            let s = f();
            self.samples.push(s);
        }
    }
    /// append to the per-case transcript (C17 build-pair differencing); no-op otherwise
    #[inline]
    pub fn tr(&mut self, f: impl FnOnce(&mut crate::digest::Transcript)) {
        if let Some(t) = self.transcript.as_mut() {
            f(t)
        }
    }
    pub fn violation(&mut self, class: &str, detail: J) {
        let c = self.viol_counts.entry(class.to_string()).or_insert(0);
        *c += 1;
        if *c <= MAX_VIOL_PER_CLASS {
            let v = Violation {
                class: class.to_string(),
                family: self.cur_family.clone(),
                idx: self.cur_idx,
                detail,
            };
            if self.verbose {
                eprintln!("violation {} family={} idx={} {}", v.class, v.family, v.idx, v.detail);
            }
            if let Some(f) = self.viol_sink.as_mut() {
                let line = json!({"class": v.class, "family": v.family, "idx": v.idx, "detail": v.detail});
                let _ = writeln!(f, "{}", line);
                let _ = f.flush();
            }
            self.violations.push(v);
        }
    }
}

/// run a closure, converting a panic into `Err(message)`
pub fn guard<T>(f: impl FnOnce() -> T) -> Result<T, String> {
    match catch_unwind(AssertUnwindSafe(f)) {
        Ok(v) => Ok(v),
        Err(e) => {
            let msg = if let Some(s) = e.downcast_ref::<&str>() {
                s.to_string()
            } else if let Some(s) = e.downcast_ref::<String>() {
                s.clone()
            } else {
                "<non-string panic>".to_string()
            };
            Err(msg)
        }
    }
}

pub fn hex(b: &[u8]) -> String {
    let mut s = String::with_capacity(b.len() * 2);
    for x in b {
        s.push_str(&format!("{:02x}", x));
    }
    s
}
pub fn show(b: &[u8]) -> J {
    let b2 = if b.len() > 400 { &b[..400] } else { b };
    json!({"text": String::from_utf8_lossy(b2), "hex": hex(b2), "len": b.len()})
}

// ------------------------------------------------------------------------------------------
// progress mapping (worker -> parent)

pub struct Progress {
    ptr: *mut u64,
}
impl Progress {
    pub fn open(path: &Path) -> Progress {
        use std::os::unix::io::AsRawFd;
        let f = std::fs::OpenOptions::new()
            .read(true)
            .write(true)
            .create(true)
            .truncate(false)
            .open(path)
            .expect("progress file");
        f.set_len(32).unwrap();
        let p = unsafe {
            libc::mmap(
                std::ptr::null_mut(),
                32,
                libc::PROT_READ | libc::PROT_WRITE,
                libc::MAP_SHARED,
                f.as_raw_fd(),
                0,
            )
        };
        assert!(p != libc::MAP_FAILED);
        Progress { ptr: p as *mut u64 }
    }
    #[inline]
    pub fn set(&self, fam: u64, idx: u64, done: u64) {
        unsafe {
            std::ptr::write_volatile(self.ptr, fam);
            std::ptr::write_volatile(self.ptr.add(1), idx);
            std::ptr::write_volatile(self.ptr.add(2), done);
        }
    }
    pub fn get(&self) -> (u64, u64, u64) {
        unsafe {
            (
                std::ptr::read_volatile(self.ptr),
                std::ptr::read_volatile(self.ptr.add(1)),
                std::ptr::read_volatile(self.ptr.add(2)),
            )
        }
    }
}

// ------------------------------------------------------------------------------------------

pub struct RunCfg {
    pub prop: String,
    pub tier: Tier,
    pub variant: String,
    pub shards: u64,
    pub workdir: PathBuf,
    pub seed: u64,
    pub wall_cap_s: f64,
    /// emit a transcript digest per chunk (C17)
    pub transcript: bool,
}

pub struct ShardResult {
    pub json: J,
}

/// worker: run shard `k` of `n` starting at (fam_start, idx_start)
pub fn run_shard(
    fams: &[Family],
    cfg: &RunCfg,
    k: u64,
    start: (u64, u64),
    only_one: bool,
    hooks: &WorkerHooks,
) -> J {
    let t0 = Instant::now();
    let mut ctx = Ctx::new(&cfg.prop, cfg.tier, &cfg.variant);
    let prog = Progress::open(&cfg.workdir.join(format!("progress-{}", k)));
    let vpath = cfg.workdir.join(format!("viol-{}.jsonl", k));
    ctx.viol_sink = Some(
        std::fs::OpenOptions::new().create(true).append(true).open(vpath).expect("viol sink"),
    );
    if cfg.transcript {
        ctx.transcript = Some(crate::digest::Transcript::new());
    }
    let mut capped = false;
    let mut covered: Vec<J> = vec![];
    let mut chunk_digests: Vec<J> = vec![];
    // chunk numbering is global over the concatenation of families so that shards balance
    let mut chunk_base: u64 = 0;
    'outer: for (fi, fam) in fams.iter().enumerate() {
        let fi = fi as u64;
        let nchunks = (fam.count + CHUNK - 1) / CHUNK;
        if fi < start.0 {
            chunk_base += nchunks;
            continue;
        }
        ctx.cur_family = fam.name.clone();
        let mut done_in_family: u64 = 0;
        for c in 0..nchunks {
            if (chunk_base + c) % cfg.shards != k {
                continue;
            }
            let lo = c * CHUNK;
            let hi = ((c + 1) * CHUNK).min(fam.count);
            if fi == start.0 && hi <= start.1 {
                continue;
            }
            if t0.elapsed().as_secs_f64() > cfg.wall_cap_s {
                capped = true;
                covered.push(json!({"family": fam.name, "stopped_before_index": lo}));
                break 'outer;
            }
            if let Some(t) = ctx.transcript.as_mut() {
                t.reset();
            }
            for idx in lo..hi {
                if fi == start.0 && idx < start.1 {
                    continue;
                }
                prog.set(fi, idx, 0);
                ctx.cur_idx = idx;
                (hooks.before_case)();
                (fam.run)(idx, &mut ctx);
                (hooks.after_case)(&mut ctx);
                done_in_family += 1;
                if only_one {
                    break 'outer;
                }
            }
            if let Some(t) = ctx.transcript.as_ref() {
                chunk_digests.push(json!([fi, c, t.digest_hex()]));
            }
        }
        covered.push(json!({"family": fam.name, "count": fam.count, "done_by_this_shard": done_in_family}));
        chunk_base += nchunks;
    }
    prog.set(u64::MAX, u64::MAX, 1);
    json!({
        "shard": k,
        "states": ctx.states,
        "transitions": ctx.transitions,
        "nontrivial": ctx.nontrivial,
        "outcomes": ctx.outcomes,
        "viol_counts": ctx.viol_counts,
        "samples": ctx.samples,
        "notes": ctx.notes,
        "capped": capped,
        "covered": covered,
        "chunk_digests": chunk_digests,
        "wall_s": t0.elapsed().as_secs_f64(),
    })
}

pub struct WorkerHooks {
    pub before_case: Box<dyn Fn()>,
    pub after_case: Box<dyn Fn(&mut Ctx)>,
}
impl Default for WorkerHooks {
    fn default() -> Self {
        WorkerHooks { before_case: Box::new(|| {}), after_case: Box::new(|_| {}) }
    }
}

fn is_fatal_signal(name: &str) -> bool {
    matches!(name, "SIGSEGV" | "SIGABRT" | "SIGBUS" | "SIGILL" | "SIGFPE")
}

fn signal_name(status: &std::process::ExitStatus) -> String {
    use std::os::unix::process::ExitStatusExt;
    if let Some(s) = status.signal() {
        match s {
            libc::SIGSEGV => "SIGSEGV".into(),
            libc::SIGABRT => "SIGABRT".into(),
            libc::SIGBUS => "SIGBUS".into(),
            libc::SIGILL => "SIGILL".into(),
            libc::SIGKILL => "SIGKILL".into(),
            libc::SIGFPE => "SIGFPE".into(),
            other => format!("SIG{}", other),
        }
    } else {
        format!("exit{}", status.code().unwrap_or(-1))
    }
}

/// parent: spawn workers, babysit, merge.  Returns the merged JSON summary.
pub fn run_parent(fams: &[Family], cfg: &RunCfg, extra_args: &[String]) -> Result<J, String> {
    let t0 = Instant::now();
    let _ = std::fs::remove_dir_all(&cfg.workdir);
    std::fs::create_dir_all(&cfg.workdir).map_err(|e| e.to_string())?;
    let exe = std::env::current_exe().map_err(|e| e.to_string())?;
    let total: u64 = fams.iter().map(|f| f.count).sum();
    let n = cfg.shards;
    // (child, shard, start)
    struct W {
        child: std::process::Child,
        k: u64,
        restarts: u32,
    }
    let spawn = |k: u64, start: (u64, u64)| -> Result<std::process::Child, String> {
        let mut c = Command::new(&exe);
        c.arg("shard")
            .arg(&cfg.prop)
            .arg("--tier")
            .arg(cfg.tier.name())
            .arg("--variant")
            .arg(&cfg.variant)
            .arg("--shard")
            .arg(format!("{}/{}", k, n))
            .arg("--start")
            .arg(format!("{}:{}", start.0, start.1))
            .arg("--workdir")
            .arg(&cfg.workdir)
            .arg("--wall-cap")
            .arg(format!("{}", cfg.wall_cap_s))
            .args(extra_args)
            .stdout(Stdio::null())
            .stderr(
                std::fs::OpenOptions::new()
                    .create(true)
                    .append(true)
                    .open(cfg.workdir.join(format!("stderr-{}", k)))
                    .map_err(|e| e.to_string())?,
            );
        if cfg.transcript {
            c.arg("--transcript");
        }
        c.spawn().map_err(|e| format!("spawn worker: {e}"))
    };
    let mut ws: Vec<W> = vec![];
    for k in 0..n {
        // make sure progress file exists & is reset
        let p = Progress::open(&cfg.workdir.join(format!("progress-{}", k)));
        p.set(0, 0, 0);
        ws.push(W { child: spawn(k, (0, 0))?, k, restarts: 0 });
    }
    let mut crashes: Vec<(u64, u64, String)> = vec![]; // (family idx, idx, signal)
    let mut abandoned: Vec<u64> = vec![];
    let mut shard_json: Vec<J> = vec![];
    for w in ws.iter_mut() {
        loop {
            let st = w.child.wait().map_err(|e| e.to_string())?;
            let prog = Progress::open(&cfg.workdir.join(format!("progress-{}", w.k)));
            let (fi, idx, done) = prog.get();
            if st.success() && done == 1 {
                break;
            }
            if done == 1 {
                return Err(format!("worker {} failed after finishing: {}", w.k, signal_name(&st)));
            }
            // died inside case (fi, idx)
            let sig = signal_name(&st);
            if st.code() == Some(2) {
                let tail = std::fs::read_to_string(cfg.workdir.join(format!("stderr-{}", w.k)))
                    .unwrap_or_default();
                let tail: String =
                    tail.lines().rev().take(15).collect::<Vec<_>>().into_iter().rev().collect::<Vec<_>>().join("\n");
                return Err(format!("worker {} machinery failure:\n{}", w.k, tail));
            }
            crashes.push((fi, idx, sig));
            w.restarts += 1;
            if w.restarts > MAX_CRASHES_PER_SHARD {
                // the rest of this shard is not explored: reported as a cap, the crashes found so
                // far are the verdict
                abandoned.push(w.k);
                break;
            }
            // partial results of the dead worker are lost except violations (jsonl sink);
            // restart after the crashing case
            w.child = spawn(w.k, (fi, idx + 1))?;
        }
        if abandoned.contains(&w.k) {
            continue;
        }
        let p = cfg.workdir.join(format!("shard-{}.json", w.k));
        let txt = std::fs::read_to_string(&p).map_err(|e| format!("read {}: {e}", p.display()))?;
        shard_json.push(serde_json::from_str(&txt).map_err(|e| e.to_string())?);
    }
    // merge
    let mut states = 0u64;
    let mut transitions = 0u64;
    let mut nontrivial = 0u64;
    let mut outcomes: BTreeMap<String, u64> = BTreeMap::new();
    let mut viol_counts: BTreeMap<String, u64> = BTreeMap::new();
    let mut notes: BTreeMap<String, u64> = BTreeMap::new();
    let mut samples: Vec<J> = vec![];
    let mut capped = !abandoned.is_empty();
    let mut chunk_digests: Vec<J> = vec![];
    for s in &shard_json {
        states += s["states"].as_u64().unwrap_or(0);
        transitions += s["transitions"].as_u64().unwrap_or(0);
        nontrivial += s["nontrivial"].as_u64().unwrap_or(0);
        for (k, v) in s["outcomes"].as_object().unwrap() {
            *outcomes.entry(k.clone()).or_insert(0) += v.as_u64().unwrap();
        }
        for (k, v) in s["viol_counts"].as_object().unwrap() {
            *viol_counts.entry(k.clone()).or_insert(0) += v.as_u64().unwrap();
        }
        for (k, v) in s["notes"].as_object().unwrap() {
            *notes.entry(k.clone()).or_insert(0) += v.as_u64().unwrap();
        }
        if samples.len() < MAX_SAMPLES {
            for x in s["samples"].as_array().unwrap().iter().take(2) {
                if samples.len() < MAX_SAMPLES {
                    samples.push(x.clone());
                }
            }
        }
        capped |= s["capped"].as_bool().unwrap_or(false);
        if let Some(a) = s["chunk_digests"].as_array() {
            chunk_digests.extend(a.iter().cloned());
        }
    }
    // violations from sinks
    let mut violations: Vec<J> = vec![];
    for k in 0..n {
        let p = cfg.workdir.join(format!("viol-{}.jsonl", k));
        // a corrupted `str` handed out by the subject can put invalid UTF-8 into a message
        if let Ok(raw) = std::fs::read(&p) {
            let txt = String::from_utf8_lossy(&raw);
            for line in txt.lines() {
                match serde_json::from_str::<J>(line) {
                    Ok(v) => violations.push(v),
                    Err(e) => return Err(format!("unreadable violation record in {}: {e}", p.display())),
                }
            }
        }
    }
    // crashes: replay each twice in a fresh process before believing it
    let mut unreproducible = vec![];
    let mut replayed = 0;
    for (fi, idx, sig) in &crashes {
        let fam = &fams[*fi as usize];
        replayed += 1;
        if replayed > MAX_CRASH_REPLAYS {
            // further crashes are listed without the double replay
            let class = format!("crash/{}", sig);
            *viol_counts.entry(class.clone()).or_insert(0) += 1;
            violations.push(json!({"class": class, "family": fam.name, "idx": idx,
                "detail": {"signal": sig, "note": "worker process died inside this case (not replayed: replay budget used by earlier crashes)"}}));
            continue;
        }
        let mut fatal = 0;
        let mut reports_violation = 0;
        let mut last = String::new();
        for _ in 0..2 {
            let st = Command::new(&exe)
                .arg("case")
                .arg(&cfg.prop)
                .arg("--tier")
                .arg(cfg.tier.name())
                .arg("--variant")
                .arg(&cfg.variant)
                .arg("--family")
                .arg(&fam.name)
                .arg("--idx")
                .arg(idx.to_string())
                .args(extra_args)
                .stdout(Stdio::null())
                .stderr(Stdio::null())
                .status()
                .map_err(|e| e.to_string())?;
            last = signal_name(&st);
            if is_fatal_signal(&last) {
                fatal += 1;
            } else if last == "exit1" {
                reports_violation += 1;
            }
        }
        let is_fatal = is_fatal_signal(sig);
        if fatal == 2 {
            let class = format!("crash/{}", sig);
            *viol_counts.entry(class.clone()).or_insert(0) += 1;
            violations.push(json!({"class": class, "family": fam.name, "idx": idx,
                "detail": {"signal": sig, "note": "worker process died inside this case; reproduced twice in fresh processes"}}));
        } else if is_fatal && fatal + reports_violation == 2 {
            // memory misuse shows differently from run to run: the same case, alone in a fresh
            // process, either dies too or is reported as a violation by the ordinary oracle
            let class = format!("crash/{}", sig);
            *viol_counts.entry(class.clone()).or_insert(0) += 1;
            violations.push(json!({"class": class, "family": fam.name, "idx": idx,
                "detail": {"signal": sig, "note": "worker process died inside this case; replayed twice in fresh processes, each replay either died too or reported a violation of the property for this case", "replays_died": fatal, "replays_reporting_violation": reports_violation}}));
        } else {
            unreproducible.push(json!({"family": fam.name, "idx": idx, "first": sig, "replay": last}));
        }
    }
    if !unreproducible.is_empty() {
        return Err(format!(
            "worker crash that does not reproduce in a fresh process (machinery problem, not a verdict): {}",
            J::Array(unreproducible)
        ));
    }
    // sort violations deterministically and cap per class again (across shards)
    violations.sort_by(|a, b| {
        (a["class"].as_str(), a["family"].as_str(), a["idx"].as_u64())
            .cmp(&(b["class"].as_str(), b["family"].as_str(), b["idx"].as_u64()))
    });
    let mut per: BTreeMap<String, u64> = BTreeMap::new();
    violations.retain(|v| {
        let c = per.entry(v["class"].as_str().unwrap().to_string()).or_insert(0);
        *c += 1;
        *c <= MAX_VIOL_PER_CLASS
    });
    chunk_digests.sort_by(|a, b| {
        (a[0].as_u64(), a[1].as_u64()).cmp(&(b[0].as_u64(), b[1].as_u64()))
    });
    Ok(json!({
        "property_id": cfg.prop,
        "tier": cfg.tier.name(),
        "variant": cfg.variant,
        "seed": cfg.seed,
        "total_cases": total,
        "families": fams.iter().map(|f| json!({"name": f.name, "cases": f.count})).collect::<Vec<_>>(),
        "states": states,
        "transitions": transitions,
        "nontrivial": nontrivial,
        "outcomes": outcomes,
        "viol_counts": viol_counts,
        "violations": violations,
        "samples": samples,
        "notes": notes,
        "capped": capped,
        "crashed_cases": crashes.len(),
        "abandoned_shards": abandoned,
        "chunk_digests": chunk_digests,
        "shards": n,
        "wall_s": t0.elapsed().as_secs_f64(),
    }))
}
