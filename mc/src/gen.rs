//! Enumerators: mixed-radix sequences over small alphabets, framings, and the bounded
//! generator of well-formed documents.  Everything is deterministic and ordered
//! simplest-first so that the first counterexample is the shortest.

/// number of sequences of length 0..=max_len over k symbols
pub fn seq_count(k: u64, max_len: u32) -> u64 {
    let mut t = 0u64;
    let mut p = 1u64;
    for _ in 0..=max_len {
        t = t.checked_add(p).expect("space too large");
        p = p.saturating_mul(k);
    }
    t
}

/// idx-th sequence (shortest first, then lexicographic in alphabet order)
pub fn nth_seq(k: u64, max_len: u32, mut idx: u64, out: &mut Vec<u32>) {
    out.clear();
    let mut p = 1u64;
    let mut len = 0u32;
    loop {
        if idx < p {
            break;
        }
        idx -= p;
        p *= k;
        len += 1;
        assert!(len <= max_len, "index out of range");
    }
    for _ in 0..len {
        out.push(0);
    }
    for j in (0..len as usize).rev() {
        out[j] = (idx % k) as u32;
        idx /= k;
    }
}

pub fn concat(alpha: &[&[u8]], seq: &[u32], out: &mut Vec<u8>) {
    out.clear();
    for &s in seq {
        out.extend_from_slice(alpha[s as usize]);
    }
}

/// Token alphabet T16 (DESIGN §3)
pub const T16: &[&[u8]] = &[
    b"[", b"]", b"{", b"}", b",", b":", b"\"a\"", b"\"\\n\"", b"1", b"-1.5e1", b"true", b"false",
    b"null", b" ", b"\n", b"x",
];
/// String-body alphabet B11
pub const B11: &[&[u8]] = &[
    b"\"", b"\\", b"u", b"n", b"x", b"0", b"D", b"8", "\u{e9}".as_bytes(), b"\x01", b"\xff",
];
/// Number alphabet N10
pub const N10: &[&[u8]] = &[b"-", b"0", b"1", b"5", b"9", b".", b"e", b"E", b"+", b" "];
/// Literal alphabet
pub const L10: &[&[u8]] = &[b"t", b"r", b"u", b"e", b"f", b"a", b"l", b"s", b"n", b" "];
/// structural byte alphabet (C01)
pub const S17: &[&[u8]] = &[
    b"{", b"}", b"[", b"]", b",", b":", b"\"", b"t", b"r", b"u", b"e", b"n", b"l", b"0", b" ",
    b"\\", b"\x80",
];

#[derive(Clone, Copy, Debug, PartialEq, Eq)]
pub struct Framing {
    pub lead: usize,
    pub trail: usize,
}
impl Framing {
    pub fn name(&self) -> String {
        format!("lead{}+trail{}", self.lead, self.trail)
    }
}
pub const FRAMINGS_FULL: &[Framing] = &[
    Framing { lead: 0, trail: 0 },
    Framing { lead: 0, trail: 64 },
    Framing { lead: 1, trail: 64 },
    Framing { lead: 31, trail: 64 },
    Framing { lead: 32, trail: 64 },
    Framing { lead: 33, trail: 64 },
    Framing { lead: 63, trail: 64 },
];
pub const FRAMINGS_2: &[Framing] = &[Framing { lead: 0, trail: 0 }, Framing { lead: 0, trail: 64 }];
pub const FRAMINGS_3: &[Framing] = &[
    Framing { lead: 0, trail: 0 },
    Framing { lead: 0, trail: 64 },
    Framing { lead: 31, trail: 64 },
];

/// whitespace-frame a document; returns the offset of the document inside the result
pub fn frame(doc: &[u8], f: Framing, out: &mut Vec<u8>) -> usize {
    out.clear();
    out.resize(f.lead, b' ');
    out.extend_from_slice(doc);
    out.resize(f.lead + doc.len() + f.trail, b' ');
    f.lead
}

// ------------------------------------------------------------------------------------------
// bounded generator of well-formed documents

#[derive(Clone, Debug)]
pub struct Style {
    pub open: &'static str,
    pub close: &'static str,
    pub comma: &'static str,
    pub colon: &'static str,
}
pub const COMPACT: Style = Style { open: "", close: "", comma: ",", colon: ":" };
pub const SPACED: Style = Style { open: " ", close: " ", comma: " , ", colon: " : " };
pub const PRETTY: Style = Style { open: "\n\t", close: "\r\n", comma: ",\n  ", colon: ": " };
pub const TIGHTWS: Style = Style { open: "", close: "\n", comma: " ,", colon: " :" };
pub const STYLES: &[Style] = &[COMPACT, SPACED, PRETTY, TIGHTWS];

pub struct DocGen {
    /// JSON texts of scalar leaves
    pub leaves: Vec<String>,
    /// JSON string literals (with quotes) usable as keys
    pub keys: Vec<String>,
    pub style: Style,
    /// if false, objects never repeat a key literal among siblings
    pub allow_dup_keys: bool,
}

impl DocGen {
    /// all documents with at most `max_nodes` nodes (a node = scalar, array or object)
    pub fn docs(&self, max_nodes: usize) -> Vec<String> {
        let st = &self.style;
        // by_size[n] = docs with exactly n nodes
        let mut by_size: Vec<Vec<String>> = vec![vec![]; max_nodes + 1];
        // seqs[m] = comma-joined element lists with total m nodes (m>=1)
        let mut seqs: Vec<Vec<String>> = vec![vec![]; max_nodes + 1];
        // members[m] = comma-joined member lists with total m nodes; tracks keys used (bitmask)
        let mut members: Vec<Vec<(String, u32)>> = vec![vec![]; max_nodes + 1];
        for n in 1..=max_nodes {
            let mut cur: Vec<String> = vec![];
            if n == 1 {
                cur.extend(self.leaves.iter().cloned());
                cur.push("[]".to_string());
                cur.push("{}".to_string());
            } else {
                for s in &seqs[n - 1] {
                    cur.push(format!("[{}{}{}]", st.open, s, st.close));
                }
                for (s, _) in &members[n - 1] {
                    cur.push(format!("{{{}{}{}}}", st.open, s, st.close));
                }
            }
            by_size[n] = cur;
            // extend seqs[n] and members[n] (they need by_size[1..=n])
            let mut sq: Vec<String> = vec![];
            for first in 1..=n {
                for c in &by_size[first] {
                    if first == n {
                        sq.push(c.clone());
                    } else {
                        for rest in &seqs[n - first] {
                            sq.push(format!("{}{}{}", c, st.comma, rest));
                        }
                    }
                }
            }
            seqs[n] = sq;
            let mut mb: Vec<(String, u32)> = vec![];
            for first in 1..=n {
                for (ki, k) in self.keys.iter().enumerate() {
                    for c in &by_size[first] {
                        if first == n {
                            mb.push((format!("{}{}{}", k, st.colon, c), 1 << ki));
                        } else {
                            for (rest, used) in &members[n - first] {
                                if !self.allow_dup_keys && (used & (1 << ki)) != 0 {
                                    continue;
                                }
                                mb.push((
                                    format!("{}{}{}{}{}", k, st.colon, c, st.comma, rest),
                                    used | (1 << ki),
                                ));
                            }
                        }
                    }
                }
            }
            members[n] = mb;
        }
        let mut out = vec![];
        for v in by_size.into_iter() {
            out.extend(v);
        }
        out
    }
}

pub fn strs(v: &[&str]) -> Vec<String> {
    v.iter().map(|s| s.to_string()).collect()
}

/// The C03 leaf set
pub fn c03_leaves() -> Vec<String> {
    let long33 = format!("\"{}\"", "a".repeat(33));
    let long70 = format!("\"{}\\n{}\"", "b".repeat(40), "c".repeat(29));
    let mut v = strs(&[
        "\"\"",
        "\"a\"",
        "\"\u{e9}\"",
        "\"\\n\"",
        "\"\\u0041\"",
        "\"\\ud83d\\ude00\"",
        "0",
        "-0",
        "1",
        "-1",
        "1.5",
        "1e2",
        "-0.0",
        "18446744073709551615",
        "18446744073709551616",
        "-9223372036854775808",
        "-9223372036854775809",
        "1e-400",
        "5e-324",
        "3e308",
        ALL_ESCAPES_LIT,
        ENDS_IN_U_ESCAPE_LIT,
        "2.2250738585072009e-308",
        "1.7976931348623157e308",
        "true",
        "false",
        "null",
    ]);
    v.push(long33);
    v.push(long70);
    v
}
pub fn small_leaves() -> Vec<String> {
    strs(&["\"a\"", "\"\\n\"", "1", "-1.5e1", "true", "null"])
}
pub fn c03_keys() -> Vec<String> {
    strs(&["\"a\"", "\"b\"", "\"\\u0061\"", "\"\""])
}


// ------------------------------------------------------------------------------------------
// corpus documents shipped with the repository (read at run time from /repo; a missing file is
// simply not part of the space)

pub fn corpus() -> Vec<(String, Vec<u8>)> {
    let files = [
        "/repo/examples/testdata/person.json",
        "/repo/benchmarks/benches/testdata/book.json",
        "/repo/benchmarks/benches/testdata/github_events.json",
        "/repo/benchmarks/benches/testdata/twitter.json",
        "/repo/benchmarks/benches/testdata/citm_catalog.json",
        "/repo/benchmarks/benches/testdata/canada.json",
    ];
    let mut out = vec![];
    for f in files {
        if let Ok(b) = std::fs::read(f) {
            if b.len() < (3 << 20) {
                let name = f.rsplit('/').next().unwrap_or(f).to_string();
                out.push((name, b));
            }
        }
    }
    out
}

/// every distinct token of one kind in a document: string literals (with quotes) or numbers
pub fn corpus_tokens(doc: &[u8], strings: bool) -> Vec<Vec<u8>> {
    let mut out: Vec<Vec<u8>> = vec![];
    let mut i = 0;
    while i < doc.len() {
        match doc[i] {
            b'"' => {
                let st = i;
                i += 1;
                while i < doc.len() && doc[i] != b'"' {
                    if doc[i] == b'\\' {
                        i += 1;
                    }
                    i += 1;
                }
                i = (i + 1).min(doc.len());
                if strings {
                    out.push(doc[st..i].to_vec());
                }
            }
            b'-' | b'0'..=b'9' => {
                let st = i;
                while i < doc.len() && matches!(doc[i], b'-' | b'+' | b'.' | b'e' | b'E' | b'0'..=b'9') {
                    i += 1;
                }
                if !strings {
                    out.push(doc[st..i].to_vec());
                }
            }
            _ => i += 1,
        }
    }
    out.sort();
    out.dedup();
    out
}

// ------------------------------------------------------------------------------------------
// string bodies: (escape head) + plain run of every length + every short B11 tail, so that every
// malformed or escaped continuation is met at every offset of the 32-byte string scanners, both
// before and after the first escape of the string (the scanners switch code paths there)

pub const HEADS: &[&[u8]] = &[b"", b"\\t", b"\\\"q"];

pub fn head_run_tail_count(heads: usize, max_run: u64, tail_len: u32) -> u64 {
    heads as u64 * (max_run + 1) * seq_count(B11.len() as u64, tail_len)
}

/// idx-th body (without the surrounding quotes)
pub fn head_run_tail_body(heads: usize, max_run: u64, tail_len: u32, idx: u64) -> Vec<u8> {
    let k = B11.len() as u64;
    let tails = seq_count(k, tail_len);
    let per_head = (max_run + 1) * tails;
    let h = (idx / per_head) as usize;
    assert!(h < heads);
    let rest = idx % per_head;
    let run = rest / tails;
    let mut seq = vec![];
    nth_seq(k, tail_len, rest % tails, &mut seq);
    let mut body = HEADS[h].to_vec();
    body.extend((0..run).map(|i| b'a' + (i % 26) as u8));
    for s in seq {
        body.extend_from_slice(B11[s as usize]);
    }
    body
}

// ------------------------------------------------------------------------------------------
// number shapes: every combination of integer width, fraction, exponent marker and sign, each
// embedded so that at least 32 bytes of input follow it (the SIMD number skipper) and so that
// fewer do (its scalar tail)

pub fn number_shapes() -> Vec<String> {
    let mut out = vec![];
    for sign in ["", "-"] {
        for int in ["0", "7", "12", "123", "1234567890123"] {
            for frac in ["", ".5", ".25", ".0", ".000000000000000000001"] {
                for exp in ["", "e3", "E3", "e+3", "E+3", "e-3", "E-3", "e12", "E+012"] {
                    out.push(format!("{sign}{int}{frac}{exp}"));
                }
            }
        }
    }
    out
}

pub fn number_shape_docs() -> Vec<String> {
    let pad = "p".repeat(40);
    let mut out = vec![];
    for n in number_shapes() {
        out.push(format!("[{n},\"{pad}\"]"));
        out.push(format!("[{n} ,\"{pad}\"]"));
        out.push(format!("{{\"k\":{n},\"p\":\"{pad}\"}}"));
        out.push(format!("{{\"k\": {n}\n, \"p\":[{n},{n}  ], \"q\":\"{pad}\"}}"));
        out.push(format!("[{n}]"));
        out.push(format!("{{\"k\":{n}}}"));
        out.push(format!("[[{n}],{{\"a\":{n} }},{n}]"));
    }
    out
}

/// containers whose emptiness is not syntactically minimal
pub const SPACED_EMPTIES: &[&str] = &["[ ]", "{ }", "[\n]", "{\t}", "[  \r\n ]", "{ \n }"];

// ------------------------------------------------------------------------------------------
// single-byte neighbourhoods of short documents: every byte value inserted at every position and
// substituted at every position (what counts as whitespace / structural / digit is decided per
// byte value, often by table or bit tricks: every value is tried)

pub const SHORT_SEEDS: &[&str] = &["{\"a\":[1,\"x\"],\"b\":-2.5e1}", "[true,{\"k\":null},\"s\\n\",10]", " [ 1 , \"a\" ]\n"];

pub fn byte_neighbourhood_count(doc: &[u8]) -> u64 {
    (doc.len() as u64 + 1) * 256 + doc.len() as u64 * 256
}
pub fn byte_neighbourhood(doc: &[u8], idx: u64) -> Vec<u8> {
    let ins = (doc.len() as u64 + 1) * 256;
    let mut d = doc.to_vec();
    if idx < ins {
        d.insert((idx / 256) as usize, (idx % 256) as u8);
    } else {
        let j = idx - ins;
        d[(j / 256) as usize] = (j % 256) as u8;
    }
    d
}

/// number literals around the edges of the f64 range (largest finite, the first that round to
/// infinity, the window between 2^1024 and 2^1025, far beyond; smallest subnormal, underflow)
pub fn range_edge_numbers() -> Vec<String> {
    let mut v = strs(&[
        "1.7976931348623157e308",
        "1.7976931348623158e308",
        "1.7976931348623159e308",
        "17976931348623159e292",
        "1.797693134862315807e308",
        "1.797693134862315808e308",
        "1.8e308",
        "2e308",
        "3e308",
        "3.5e308",
        "3.59e308",
        "3.6e308",
        "4e308",
        "9e308",
        "1e309",
        "1e400",
        "1e4000",
        "0.1e310",
        "18e307",
        "35e307",
        "2.2250738585072014e-308",
        "2.2250738585072011e-308",
        "1e-308",
        "2e-308",
        "3e-308",
        "0.1e-307",
        "0.02e-306",
        "4.9406564584124654e-324",
        "5e-324",
        "2.5e-324",
        "2.4e-324",
        "1e-324",
        "1e-400",
        "1e-4000",
    ]);
    // integers of 309 and 310 digits with every leading digit
    for lead in 1..=9 {
        v.push(format!("{lead}{}", "0".repeat(308)));
        v.push(format!("{lead}7{}", "9".repeat(307)));
        v.push(format!("{lead}{}", "0".repeat(309)));
    }
    let neg: Vec<String> = v.iter().map(|s| format!("-{s}")).collect();
    v.extend(neg);
    v
}

/// one string literal with every kind of escape the grammar has
pub const ALL_ESCAPES_LIT: &str = "\"e\\/\\b\\f\\n\\r\\t\\\\\\\"\\u00e9\\ud83d\\ude00\"";
/// a string that ends in a \u escape
pub const ENDS_IN_U_ESCAPE_LIT: &str = "\"caf\\u00e9\"";
