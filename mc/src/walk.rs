//! Tree walks through the public read API of sonic-rs values, compared with the reference tree.

use sonic_rs::{JsonContainerTrait, JsonNumberTrait, JsonValueTrait, Value, ValueRef};

use crate::refjson::{Kind, Node, Num};

fn num_matches(
    lit: &str,
    want: &Num,
    is_u: bool,
    is_i: bool,
    is_f: bool,
    as_u: Option<u64>,
    as_i: Option<i64>,
    as_f: Option<f64>,
) -> Result<(), String> {
    // "-0": a plain negative integer literal by the letter of C07, negative zero float by the
    // deliberate design of the library (and serde_json): both readings are accepted.
    if lit == "-0" {
        let as_float = is_f && as_f.map(|f| f.to_bits()) == Some((-0.0f64).to_bits());
        let as_int = is_i && as_i == Some(0);
        return if as_float || as_int {
            Ok(())
        } else {
            Err(format!("-0 parsed as u={:?} i={:?} f={:?} (bits {:?})", as_u, as_i, as_f, as_f.map(|f| f.to_bits())))
        };
    }
    match want {
        Num::U(u) => {
            if !(is_u && as_u == Some(*u) && !is_f) {
                return Err(format!("{lit}: expected u64 {u}, got is_u64={is_u} as_u64={as_u:?} is_f64={is_f}"));
            }
            let want_i = i64::try_from(*u).ok();
            if as_i != want_i || is_i != want_i.is_some() {
                return Err(format!("{lit}: as_i64={as_i:?} is_i64={is_i}, expected {want_i:?}"));
            }
            if as_f != Some(*u as f64) {
                return Err(format!("{lit}: as_f64={as_f:?}, expected {}", *u as f64));
            }
        }
        Num::I(i) => {
            if !(is_i && as_i == Some(*i) && !is_f && !is_u && as_u.is_none()) {
                return Err(format!(
                    "{lit}: expected i64 {i}, got is_i64={is_i} as_i64={as_i:?} is_u64={is_u} is_f64={is_f}"
                ));
            }
        }
        Num::F(f) => {
            if !(is_f && !is_u && !is_i && as_u.is_none() && as_i.is_none()) {
                return Err(format!("{lit}: expected float, got is_f64={is_f} is_u64={is_u} is_i64={is_i}"));
            }
            if as_f.map(|x| x.to_bits()) != Some(f.to_bits()) {
                return Err(format!(
                    "{lit}: as_f64={:?} bits {:?}, expected {:?} bits {:016x}",
                    as_f,
                    as_f.map(|x| format!("{:016x}", x.to_bits())),
                    f,
                    f.to_bits()
                ));
            }
        }
    }
    Ok(())
}

pub fn cmp_number_value(v: &Value, n: &Node, src: &[u8], want: &Num, rawnum: bool) -> Result<(), String> {
    let lit = std::str::from_utf8(n.text(src)).unwrap();
    if !v.is_number() {
        return Err(format!("{lit}: not a number: {:?}", v.get_type()));
    }
    if rawnum {
        match v.as_raw_number() {
            Some(r) if r.as_str() == lit => {}
            other => return Err(format!("{lit}: as_raw_number = {:?}", other.map(|r| r.as_str().to_string()))),
        }
        // as_number of a raw number = parse of the literal
        let num = v.as_number().ok_or_else(|| format!("{lit}: as_number() None in raw mode"))?;
        return num_matches(lit, want, num.is_u64(), num.is_i64(), num.is_f64(), num.as_u64(), num.as_i64(), num.as_f64());
    }
    let num = v.as_number().ok_or_else(|| format!("{lit}: as_number() None"))?;
    num_matches(lit, want, v.is_u64(), v.is_i64(), v.is_f64(), v.as_u64(), v.as_i64(), v.as_f64())?;
    num_matches(lit, want, num.is_u64(), num.is_i64(), num.is_f64(), num.as_u64(), num.as_i64(), num.as_f64())?;
    if v.as_raw_number().is_some() {
        return Err(format!("{lit}: as_raw_number() is Some although raw-number mode is off"));
    }
    Ok(())
}

/// full comparison of a DOM value with the reference tree
pub fn cmp_value(v: &Value, n: &Node, src: &[u8], rawnum: bool) -> Result<(), String> {
    match (&n.kind, v.as_ref()) {
        (Kind::Null, ValueRef::Null) => {
            if !v.is_null() {
                return Err("is_null false".into());
            }
            Ok(())
        }
        (Kind::Bool(b), ValueRef::Bool(x)) => {
            if *b != x || v.as_bool() != Some(*b) || v.is_true() != *b || v.is_false() == *b {
                return Err(format!("bool mismatch {b} vs {x}"));
            }
            Ok(())
        }
        (Kind::Num(want), ValueRef::Number(_)) => cmp_number_value(v, n, src, want, rawnum),
        (Kind::Str { val, .. }, ValueRef::String(s)) => {
            if s.as_bytes() != val.as_bytes() || v.as_str().map(|x| x.as_bytes()) != Some(val.as_bytes()) || !v.is_str() {
                return Err(format!(
                    "string mismatch: expected {:?} got bytes {} ({:?})",
                    val,
                    crate::engine::hex(s.as_bytes()),
                    String::from_utf8_lossy(s.as_bytes())
                ));
            }
            Ok(())
        }
        (Kind::Arr(items), ValueRef::Array(a)) => {
            if a.len() != items.len() {
                return Err(format!("array length {} vs reference {}", a.len(), items.len()));
            }
            if !v.is_array() || v.as_array().map(|x| x.len()) != Some(items.len()) {
                return Err("is_array/as_array disagree".into());
            }
            for (i, (x, rn)) in a.iter().zip(items.iter()).enumerate() {
                cmp_value(x, rn, src, rawnum).map_err(|e| format!("[{i}]: {e}"))?;
                // index access gives the same element
                match v.get(i) {
                    Some(y) if std::ptr::eq(y, x) => {}
                    _ => return Err(format!("get({i}) does not return element {i}")),
                }
            }
            if v.get(items.len()).is_some() {
                return Err("get(len) is Some".into());
            }
            Ok(())
        }
        (Kind::Obj(members), ValueRef::Object(o)) => {
            if o.len() != members.len() {
                return Err(format!("object length {} vs reference {}", o.len(), members.len()));
            }
            let mut it = o.iter();
            for (i, (k, rv)) in members.iter().enumerate() {
                let Some((sk, sv)) = it.next() else {
                    return Err(format!("iterator ended at member {i}"));
                };
                if sk != k.key_str() {
                    return Err(format!("member {i}: key {:?} vs reference {:?}", sk, k.key_str()));
                }
                cmp_value(sv, rv, src, rawnum).map_err(|e| format!(".{}: {e}", k.key_str()))?;
            }
            if it.next().is_some() {
                return Err("iterator yields extra members".into());
            }
            // lookup: first member with that name wins
            for (k, _) in members.iter() {
                let first = members.iter().position(|(k2, _)| k2.key_str() == k.key_str()).unwrap();
                let got = v.get(k.key_str());
                let expect = o.iter().nth(first).map(|(_, v)| v);
                match (got, expect) {
                    (Some(a), Some(b)) if std::ptr::eq(a, b) => {}
                    _ => return Err(format!("get({:?}) is not the first member of that name", k.key_str())),
                }
            }
            if v.get("\u{1}no-such-key").is_some() {
                return Err("get(missing) is Some".into());
            }
            Ok(())
        }
        (k, got) => Err(format!(
            "kind mismatch: reference {} vs value {:?}",
            match k {
                Kind::Null => "null",
                Kind::Bool(_) => "bool",
                Kind::Num(_) => "number",
                Kind::Str { .. } => "string",
                Kind::Arr(_) => "array",
                Kind::Obj(_) => "object",
            },
            std::mem::discriminant(&got)
        )),
    }
}

/// canonical dump of a sonic value in the format of `Node::dumps` (member order preserved)
pub fn dump_value(v: &Value, out: &mut String) {
    match v.as_ref() {
        ValueRef::Null => out.push_str("null"),
        ValueRef::Bool(b) => out.push_str(if b { "true" } else { "false" }),
        ValueRef::Number(n) => {
            if let Some(u) = n.as_u64() {
                out.push_str(&format!("u{}", u));
            } else if let Some(i) = n.as_i64() {
                out.push_str(&format!("i{}", i));
            } else {
                out.push_str(&format!("f{:016x}", n.as_f64().unwrap().to_bits()));
            }
        }
        ValueRef::String(s) => out.push_str(&format!("{:?}", s)),
        ValueRef::Array(a) => {
            out.push('[');
            for (i, x) in a.iter().enumerate() {
                if i > 0 {
                    out.push(',');
                }
                dump_value(x, out);
            }
            out.push(']');
        }
        ValueRef::Object(o) => {
            out.push('{');
            for (i, (k, x)) in o.iter().enumerate() {
                if i > 0 {
                    out.push(',');
                }
                out.push_str(&format!("{:?}:", k));
                dump_value(x, out);
            }
            out.push('}');
        }
    }
}

/// canonical dump with object members sorted by key (stable) - for owned objects whose
/// iteration order is hash-dependent
pub fn dump_value_sorted(v: &Value, out: &mut String) {
    match v.as_ref() {
        ValueRef::Array(a) => {
            out.push('[');
            for (i, x) in a.iter().enumerate() {
                if i > 0 {
                    out.push(',');
                }
                dump_value_sorted(x, out);
            }
            out.push(']');
        }
        ValueRef::Object(o) => {
            let mut items: Vec<(&str, &Value)> = o.iter().collect();
            items.sort_by(|a, b| a.0.cmp(b.0));
            out.push('{');
            for (i, (k, x)) in items.iter().enumerate() {
                if i > 0 {
                    out.push(',');
                }
                out.push_str(&format!("{:?}:", k));
                dump_value_sorted(x, out);
            }
            out.push('}');
        }
        _ => dump_value(v, out),
    }
}
