//! Subject wrappers: the safe public entry points of sonic-rs, each reduced to
//! "bytes in, Ok/Err out" plus a description of what text the entry point really sees and
//! which reference verdict applies to it.

use std::collections::HashMap;

use bytes::Bytes;
use faststr::FastStr;
use serde::{de::IgnoredAny, Deserialize};
use sonic_rs::{Deserializer, LazyValue, OwnedLazyValue, Value};

use crate::refjson::{self, Kind, Mode, Node};

#[derive(Clone, Copy, Debug, PartialEq, Eq)]
pub enum Scope {
    /// the whole text must be one document
    Whole,
    /// only the k-th top-level value of the text is looked at (stream / deserializer without
    /// trailing check); k counts from 0
    Nth(usize),
}

#[derive(Clone, Copy, Debug, PartialEq, Eq)]
pub enum Want {
    Any,
    Str,
    Num,
}

#[derive(Clone, Copy, Debug, PartialEq, Eq)]
pub enum Ep {
    ValueSlice,
    ValueStr,
    ValueReader,
    ValueDeBytes,
    ValueDeFastStr,
    ValueDeString,
    SjSlice,
    SjStr,
    WrapMap,
    WrapVec,
    Stream2,
    StringSlice,
    F64Slice,
    LazySlice,
    LazyStr,
    OwnedLazySlice,
    OwnedLazyStr,
    IgnoredSlice,
    IgnoredStr,
    VecIgnored,
    UnknownField,
    LazyDeBytes,
    StreamLazy2,
}

pub struct EpInfo {
    pub ep: Ep,
    pub name: &'static str,
    pub mode: Mode,
    pub prefix: &'static [u8],
    pub suffix: &'static [u8],
    pub scope: Scope,
    pub want: Want,
    pub needs_utf8: bool,
}

const fn e(
    ep: Ep,
    name: &'static str,
    mode: Mode,
    prefix: &'static [u8],
    suffix: &'static [u8],
    scope: Scope,
    want: Want,
    needs_utf8: bool,
) -> EpInfo {
    EpInfo { ep, name, mode, prefix, suffix, scope, want, needs_utf8 }
}

pub const DECODE_EPS: &[EpInfo] = &[
    e(Ep::ValueSlice, "from_slice<Value>", Mode::Decode, b"", b"", Scope::Whole, Want::Any, false),
    e(Ep::ValueStr, "from_str<Value>", Mode::Decode, b"", b"", Scope::Whole, Want::Any, true),
    e(Ep::ValueReader, "from_reader<Value>", Mode::Decode, b"", b"", Scope::Whole, Want::Any, false),
    e(Ep::ValueDeBytes, "Deserializer::from_json(&Bytes)<Value>", Mode::Decode, b"", b"", Scope::Nth(0), Want::Any, false),
    e(Ep::ValueDeFastStr, "Deserializer::from_json(&FastStr)<Value>", Mode::Decode, b"", b"", Scope::Nth(0), Want::Any, true),
    e(Ep::ValueDeString, "Deserializer::from_json(&String)<Value>", Mode::Decode, b"", b"", Scope::Nth(0), Want::Any, true),
    e(Ep::SjSlice, "from_slice<serde_json::Value>", Mode::Decode, b"", b"", Scope::Whole, Want::Any, false),
    e(Ep::SjStr, "from_str<serde_json::Value>", Mode::Decode, b"", b"", Scope::Whole, Want::Any, true),
    e(Ep::WrapMap, "from_slice<HashMap<String,Value>>({\"v\":_})", Mode::Decode, b"{\"v\":", b"}", Scope::Whole, Want::Any, false),
    e(Ep::WrapVec, "from_slice<Vec<Value>>([_])", Mode::Decode, b"[", b"]", Scope::Whole, Want::Any, false),
    e(Ep::Stream2, "stream<Value> second document", Mode::Decode, b"0 ", b"", Scope::Nth(1), Want::Any, false),
    e(Ep::StringSlice, "from_slice<String>", Mode::Decode, b"", b"", Scope::Whole, Want::Str, false),
    e(Ep::F64Slice, "from_slice<f64>", Mode::Decode, b"", b"", Scope::Whole, Want::Num, false),
];

pub const SKIP_EPS: &[EpInfo] = &[
    e(Ep::LazySlice, "from_slice<LazyValue>", Mode::Grammar, b"", b"", Scope::Whole, Want::Any, false),
    e(Ep::LazyStr, "from_str<LazyValue>", Mode::Grammar, b"", b"", Scope::Whole, Want::Any, true),
    e(Ep::OwnedLazySlice, "from_slice<OwnedLazyValue>", Mode::Grammar, b"", b"", Scope::Whole, Want::Any, false),
    e(Ep::OwnedLazyStr, "from_str<OwnedLazyValue>", Mode::Grammar, b"", b"", Scope::Whole, Want::Any, true),
    e(Ep::IgnoredSlice, "from_slice<IgnoredAny>", Mode::Grammar, b"", b"", Scope::Whole, Want::Any, false),
    e(Ep::IgnoredStr, "from_str<IgnoredAny>", Mode::Grammar, b"", b"", Scope::Whole, Want::Any, true),
    e(Ep::VecIgnored, "from_slice<Vec<IgnoredAny>>([_])", Mode::Grammar, b"[", b"]", Scope::Whole, Want::Any, false),
    e(Ep::UnknownField, "from_slice<struct{}>({\"u\":_}) unknown field", Mode::Grammar, b"{\"u\":", b"}", Scope::Whole, Want::Any, false),
    e(Ep::LazyDeBytes, "Deserializer::from_json(&Bytes)<LazyValue>", Mode::Grammar, b"", b"", Scope::Nth(0), Want::Any, false),
    e(Ep::StreamLazy2, "stream<OwnedLazyValue> second document", Mode::Grammar, b"0 ", b"", Scope::Nth(1), Want::Any, false),
];

#[derive(Deserialize)]
pub struct Empty {}

/// Build the text the entry point sees.
pub fn wrap(info: &EpInfo, doc: &[u8], out: &mut Vec<u8>) {
    out.clear();
    out.extend_from_slice(info.prefix);
    out.extend_from_slice(doc);
    out.extend_from_slice(info.suffix);
}

/// Reference verdict for the text an entry point sees.  Returns Ok(root-or-nth node) when
/// the entry point must accept.
pub fn expected(info: &EpInfo, text: &[u8]) -> Option<Result<Node, refjson::Reject>> {
    // A number that is directly followed by a non-whitespace byte has no defined end for an
    // entry point that does not look at the rest of the text: no verdict.
    if let Scope::Nth(k) = info.scope {
        let mut pos = 0;
        for _ in 0..=k {
            match refjson::parse_value_at(text, pos, info.mode) {
                Ok(n) => {
                    if matches!(n.kind, Kind::Num(_)) && n.end < text.len() && !refjson::is_ws(text[n.end]) {
                        return None;
                    }
                    pos = n.end;
                }
                Err(_) => break,
            }
        }
    }
    Some(expected_inner(info, text))
}

fn expected_inner(info: &EpInfo, text: &[u8]) -> Result<Node, refjson::Reject> {
    let node = match info.scope {
        Scope::Whole => refjson::parse_doc(text, info.mode)?,
        Scope::Nth(k) => {
            let mut pos = 0;
            let mut cur = refjson::parse_value_at(text, pos, info.mode)?;
            for _ in 0..k {
                pos = cur.end;
                cur = refjson::parse_value_at(text, pos, info.mode)?;
            }
            cur
        }
    };
    // type filter
    let ok = match (info.want, &node.kind) {
        (Want::Any, _) => true,
        (Want::Str, Kind::Str { .. }) => true,
        (Want::Num, Kind::Num(n)) => match n {
            refjson::Num::F(f) => f.is_finite(),
            _ => true,
        },
        _ => false,
    };
    if !ok {
        return Err(refjson::Reject { reason: refjson::Reason::Unexpected, at: node.start });
    }
    // unknown-field keys are decoded even though values are only skipped
    if info.ep == Ep::UnknownField {
        if let Kind::Obj(members) = &node.kind {
            for (k, _) in members {
                refjson::parse_value_at(text, k.start, Mode::Decode)?;
            }
        }
    }
    if info.ep == Ep::WrapMap {
        if !matches!(node.kind, Kind::Obj(_)) {
            return Err(refjson::Reject { reason: refjson::Reason::Unexpected, at: node.start });
        }
    }
    Ok(node)
}

/// Invoke the entry point.  `None` = not applicable to this text (e.g. &str carrier and the
/// bytes are not UTF-8).
pub fn call(info: &EpInfo, text: &[u8]) -> Option<Result<(), sonic_rs::Error>> {
    let s = if info.needs_utf8 {
        match std::str::from_utf8(text) {
            Ok(s) => Some(s),
            Err(_) => return None,
        }
    } else {
        None
    };
    Some(match info.ep {
        Ep::ValueSlice => sonic_rs::from_slice::<Value>(text).map(|_| ()),
        Ep::ValueStr => sonic_rs::from_str::<Value>(s.unwrap()).map(|_| ()),
        Ep::ValueReader => sonic_rs::from_reader::<_, Value>(text).map(|_| ()),
        Ep::ValueDeBytes => {
            let b = Bytes::copy_from_slice(text);
            let mut de = Deserializer::from_json(&b);
            let r = de.deserialize::<Value>().map(|_| ());
            r
        }
        Ep::ValueDeFastStr => {
            let f = FastStr::new(s.unwrap());
            let mut de = Deserializer::from_json(&f);
            let r = de.deserialize::<Value>().map(|_| ());
            r
        }
        Ep::ValueDeString => {
            let f = s.unwrap().to_string();
            let mut de = Deserializer::from_json(&f);
            let r = de.deserialize::<Value>().map(|_| ());
            r
        }
        Ep::SjSlice => sonic_rs::from_slice::<serde_json::Value>(text).map(|_| ()),
        Ep::SjStr => sonic_rs::from_str::<serde_json::Value>(s.unwrap()).map(|_| ()),
        Ep::WrapMap => sonic_rs::from_slice::<HashMap<String, Value>>(text).map(|_| ()),
        Ep::WrapVec => sonic_rs::from_slice::<Vec<Value>>(text).map(|_| ()),
        Ep::Stream2 => {
            let mut st = Deserializer::from_slice(text).into_stream::<Value>();
            let _first = st.next();
            match st.next() {
                Some(Ok(_)) => Ok(()),
                Some(Err(e)) => Err(e),
                None => match _first {
                    Some(Err(e)) => Err(e),
                    _ => Err(<sonic_rs::Error as serde::de::Error>::custom("stream ended")),
                },
            }
        }
        Ep::StringSlice => sonic_rs::from_slice::<String>(text).map(|_| ()),
        Ep::F64Slice => sonic_rs::from_slice::<f64>(text).map(|_| ()),
        Ep::LazySlice => sonic_rs::from_slice::<LazyValue>(text).map(|_| ()),
        Ep::LazyStr => sonic_rs::from_str::<LazyValue>(s.unwrap()).map(|_| ()),
        Ep::OwnedLazySlice => sonic_rs::from_slice::<OwnedLazyValue>(text).map(|_| ()),
        Ep::OwnedLazyStr => sonic_rs::from_str::<OwnedLazyValue>(s.unwrap()).map(|_| ()),
        Ep::IgnoredSlice => sonic_rs::from_slice::<IgnoredAny>(text).map(|_| ()),
        Ep::IgnoredStr => sonic_rs::from_str::<IgnoredAny>(s.unwrap()).map(|_| ()),
        Ep::VecIgnored => sonic_rs::from_slice::<Vec<IgnoredAny>>(text).map(|_| ()),
        Ep::UnknownField => sonic_rs::from_slice::<Empty>(text).map(|_| ()),
        Ep::LazyDeBytes => {
            let b = Bytes::copy_from_slice(text);
            let mut de = Deserializer::from_json(&b);
            let r = de.deserialize::<LazyValue>().map(|_| ());
            r
        }
        Ep::StreamLazy2 => {
            let mut st = Deserializer::from_slice(text).into_stream::<OwnedLazyValue>();
            let _first = st.next();
            match st.next() {
                Some(Ok(_)) => Ok(()),
                Some(Err(e)) => Err(e),
                None => match _first {
                    Some(Err(e)) => Err(e),
                    _ => Err(<sonic_rs::Error as serde::de::Error>::custom("stream ended")),
                },
            }
        }
    })
}

/// is this error an implementation nesting-limit rejection
pub fn is_depth_limit(e: &sonic_rs::Error) -> bool {
    let s = e.to_string();
    s.contains("recursion limit") || s.contains("Recursion limit") || s.contains("layers deep")
}

/// Error self-location invariants (C20): returns a violation class + detail if broken.
pub fn check_error_position(text: &[u8], err: &sonic_rs::Error) -> Option<(String, serde_json::Value)> {
    let off = err.offset();
    let line = err.line();
    let col = err.column();
    if off > text.len() {
        return Some((
            "offset-beyond-input".into(),
            serde_json::json!({"offset": off, "len": text.len(), "line": line, "column": col}),
        ));
    }
    // recompute line/column of `off`
    let mut l = 1usize;
    let mut c = 0usize;
    for &b in &text[..off] {
        if b == b'\n' {
            l += 1;
            c = 0;
        } else {
            c += 1;
        }
    }
    if line != l || col != c {
        return Some((
            "line-column-mismatch".into(),
            serde_json::json!({"offset": off, "line": line, "column": col, "expected_line": l, "expected_column": c}),
        ));
    }
    None
}
