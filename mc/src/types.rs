//! The "C04 type family": representative Rust types with a finite universe of values each.
//! Used by C04 (typed deserialization vs serde_json), C05 (serializer output), C19 (DOM route).

use std::collections::BTreeMap;

use serde::{de::DeserializeOwned, Deserialize, Serialize};

pub trait Fam: Serialize + DeserializeOwned + PartialEq + std::fmt::Debug + 'static {
    const NAME: &'static str;
    fn universe() -> Vec<Self>;
}

macro_rules! fam {
    ($t:ty, $name:expr, $u:expr) => {
        impl Fam for $t {
            const NAME: &'static str = $name;
            fn universe() -> Vec<Self> {
                $u
            }
        }
    };
}

fam!(i8, "i8", vec![i8::MIN, -1, 0, 1, i8::MAX]);
fam!(i16, "i16", vec![i16::MIN, -129, -1, 0, 255, i16::MAX]);
fam!(i32, "i32", vec![i32::MIN, -32769, 0, 65536, i32::MAX]);
fam!(i64, "i64", vec![i64::MIN, i64::MIN + 1, -(1 << 53) - 1, -1, 0, 1 << 53, i64::MAX]);
fam!(i128, "i128", vec![i128::MIN, i64::MIN as i128 - 1, i64::MIN as i128, -1, 0, u64::MAX as i128, u64::MAX as i128 + 1, i128::MAX]);
fam!(u8, "u8", vec![0, 1, 127, 128, u8::MAX]);
fam!(u16, "u16", vec![0, 256, u16::MAX]);
fam!(u32, "u32", vec![0, 65536, u32::MAX]);
fam!(u64, "u64", vec![0, 1, (1 << 53) + 1, i64::MAX as u64, i64::MAX as u64 + 1, u64::MAX]);
fam!(u128, "u128", vec![0, u64::MAX as u128, u64::MAX as u128 + 1, 10u128.pow(38), u128::MAX]);
fam!(f32, "f32", vec![0.0, -0.0, 1.0, -1.5, 0.1, f32::MIN_POSITIVE, f32::MAX, f32::MIN, 16777216.0, 1e-45, 3.4028235e38]);
fam!(f64, "f64", vec![0.0, -0.0, 1.0, -1.5, 0.1, 1e21, 1e-7, f64::MIN_POSITIVE, 5e-324, f64::MAX, f64::MIN, 9007199254740993.0, 1.7976931348623157e308]);
fam!(bool, "bool", vec![true, false]);
fam!(char, "char", vec!['a', '"', '\\', '\n', '\u{0}', '\u{1f}', '\u{7f}', '\u{e9}', '\u{ffff}', '\u{1f600}']);
fam!(String, "String", vec![
    "".into(), "a".into(), "\"".into(), "\\".into(), "\n\t\r\u{8}\u{c}".into(), "\u{0}\u{1f}\u{7f}".into(), "\u{e9}\u{1f600}".into(),
    "x".repeat(31), "y".repeat(32), format!("{}\"", "z".repeat(63)), "1".into(), "true".into(), "null".into()
]);
fam!((), "unit", vec![()]);
fam!(Option<u8>, "Option<u8>", vec![None, Some(0), Some(255)]);
fam!(Option<Option<bool>>, "Option<Option<bool>>", vec![None, Some(Some(true)), Some(Some(false))]);
fam!(Option<String>, "Option<String>", vec![None, Some("".into()), Some("null".into())]);
fam!((u8, String), "(u8,String)", vec![(0, "".into()), (255, "a\"b".into())]);
fam!((i64, f64, bool), "(i64,f64,bool)", vec![(i64::MIN, -0.0, true), (0, 1.5, false)]);
fam!([i16; 3], "[i16;3]", vec![[0, 0, 0], [i16::MIN, -1, i16::MAX]]);
fam!(Vec<i32>, "Vec<i32>", vec![vec![], vec![0], vec![i32::MIN, i32::MAX], vec![1; 40]]);
fam!(Vec<Option<String>>, "Vec<Option<String>>", vec![vec![], vec![None], vec![Some("a".into()), None, Some("\n".into())]]);
fam!(Vec<Vec<u8>>, "Vec<Vec<u8>>", vec![vec![], vec![vec![]], vec![vec![1, 2], vec![], vec![255]]]);
fam!(Vec<f64>, "Vec<f64>", vec![vec![], vec![0.5, -0.0, 1e300], vec![1.0; 17]]);

fn bm<K: Ord, V>(v: Vec<(K, V)>) -> BTreeMap<K, V> {
    v.into_iter().collect()
}
fam!(BTreeMap<String, i32>, "BTreeMap<String,i32>", vec![bm(vec![]), bm(vec![("a".into(), 1)]), bm(vec![("".into(), 0), ("a\"\n".into(), -1), ("\u{e9}".into(), i32::MAX)])]);
fam!(BTreeMap<i32, bool>, "BTreeMap<i32,bool>", vec![bm(vec![]), bm(vec![(0, true)]), bm(vec![(i32::MIN, false), (-1, true), (i32::MAX, true)])]);
fam!(BTreeMap<u64, u8>, "BTreeMap<u64,u8>", vec![bm(vec![(0, 0)]), bm(vec![(u64::MAX, 255), (1, 1)])]);
fam!(BTreeMap<i128, u8>, "BTreeMap<i128,u8>", vec![bm(vec![(0, 0)]), bm(vec![(i128::MIN, 1), (u64::MAX as i128 + 1, 2)])]);
fam!(BTreeMap<bool, u8>, "BTreeMap<bool,u8>", vec![bm(vec![]), bm(vec![(true, 1), (false, 0)])]);
fam!(BTreeMap<char, u8>, "BTreeMap<char,u8>", vec![bm(vec![('a', 1)]), bm(vec![('"', 1), ('\u{e9}', 2), ('\n', 3)])]);
fam!(BTreeMap<UnitEnum, u8>, "BTreeMap<UnitEnum,u8>", vec![bm(vec![]), bm(vec![(UnitEnum::A, 1), (UnitEnum::B, 2)])]);
fam!(BTreeMap<String, Vec<Option<bool>>>, "BTreeMap<String,Vec<Option<bool>>>", vec![bm(vec![("k".into(), vec![])]), bm(vec![("a".into(), vec![None, Some(true)]), ("b".into(), vec![Some(false)])])]);

#[derive(Serialize, Deserialize, PartialEq, Eq, PartialOrd, Ord, Debug, Clone, Copy)]
pub enum UnitEnum {
    A,
    B,
    #[serde(rename = "c\"x")]
    C,
}
fam!(UnitEnum, "UnitEnum", vec![UnitEnum::A, UnitEnum::B, UnitEnum::C]);

#[derive(Serialize, Deserialize, PartialEq, Debug)]
pub struct UnitStruct;
fam!(UnitStruct, "UnitStruct", vec![UnitStruct]);

#[derive(Serialize, Deserialize, PartialEq, Debug)]
pub struct Newtype(pub u16);
fam!(Newtype, "Newtype(u16)", vec![Newtype(0), Newtype(u16::MAX)]);

#[derive(Serialize, Deserialize, PartialEq, Debug)]
pub struct TupleStruct(pub i8, pub String);
fam!(TupleStruct, "TupleStruct(i8,String)", vec![TupleStruct(-1, "".into()), TupleStruct(i8::MAX, "q".into())]);

#[derive(Serialize, Deserialize, PartialEq, Debug)]
pub struct Plain {
    pub a: u8,
    pub b: String,
    pub c: Option<bool>,
    #[serde(default)]
    pub d: Vec<i16>,
}
fam!(Plain, "struct Plain", vec![
    Plain { a: 0, b: "".into(), c: None, d: vec![] },
    Plain { a: 255, b: "s\"".into(), c: Some(true), d: vec![-1, 1] }
]);

#[derive(Serialize, Deserialize, PartialEq, Debug)]
#[serde(deny_unknown_fields)]
pub struct Strict {
    pub a: i32,
    #[serde(rename = "b-b")]
    pub b: Option<String>,
}
fam!(Strict, "struct Strict(deny_unknown_fields)", vec![Strict { a: -1, b: None }, Strict { a: 7, b: Some("x".into()) }]);

#[derive(Serialize, Deserialize, PartialEq, Debug)]
pub struct Nested {
    pub p: Plain,
    pub n: Option<Box<Nested>>,
    pub m: BTreeMap<String, Newtype>,
}
fam!(Nested, "struct Nested", vec![
    Nested { p: Plain { a: 1, b: "b".into(), c: None, d: vec![] }, n: None, m: bm(vec![]) },
    Nested {
        p: Plain { a: 2, b: "".into(), c: Some(false), d: vec![0] },
        n: Some(Box::new(Nested { p: Plain { a: 3, b: "i".into(), c: None, d: vec![] }, n: None, m: bm(vec![("k".into(), Newtype(5))]) })),
        m: bm(vec![("x".into(), Newtype(1)), ("y".into(), Newtype(2))])
    }
]);

#[derive(Serialize, Deserialize, PartialEq, Debug)]
pub enum Shapes {
    Unit,
    New(i64),
    Tup(u8, String),
    Struct { a: bool, b: Option<u8> },
    NewVec(Vec<Shapes>),
}
fam!(Shapes, "enum Shapes", vec![
    Shapes::Unit,
    Shapes::New(i64::MIN),
    Shapes::Tup(1, "t".into()),
    Shapes::Struct { a: true, b: None },
    Shapes::Struct { a: false, b: Some(9) },
    Shapes::NewVec(vec![]),
    Shapes::NewVec(vec![Shapes::Unit, Shapes::New(0)])
]);

#[derive(Serialize, Deserialize, PartialEq, Debug)]
#[serde(tag = "t")]
pub enum Internal {
    A { x: u8 },
    B { y: String, z: Option<i32> },
    C,
}
fam!(Internal, "enum Internal(tag)", vec![Internal::A { x: 1 }, Internal::B { y: "y".into(), z: None }, Internal::B { y: "".into(), z: Some(-5) }, Internal::C]);

#[derive(Serialize, Deserialize, PartialEq, Debug)]
#[serde(tag = "t", content = "c")]
pub enum Adjacent {
    A(u8),
    B { y: String },
    C,
    D(i8, bool),
}
fam!(Adjacent, "enum Adjacent(tag,content)", vec![Adjacent::A(3), Adjacent::B { y: "q".into() }, Adjacent::C, Adjacent::D(-1, true)]);

#[derive(Serialize, Deserialize, PartialEq, Debug)]
#[serde(untagged)]
pub enum Untagged {
    I(i64),
    S(String),
    V(Vec<u8>),
    M { k: bool },
    N(()),
}
fam!(Untagged, "enum Untagged", vec![Untagged::I(-7), Untagged::S("s".into()), Untagged::V(vec![1, 2]), Untagged::M { k: true }, Untagged::N(())]);

#[derive(Serialize, Deserialize, PartialEq, Debug)]
pub struct Flat {
    pub id: u32,
    #[serde(flatten)]
    pub rest: BTreeMap<String, i64>,
}
fam!(Flat, "struct Flat(flatten)", vec![Flat { id: 1, rest: bm(vec![]) }, Flat { id: 2, rest: bm(vec![("x".into(), -1), ("y".into(), 1 << 40)]) }]);

#[derive(Serialize, Deserialize, PartialEq, Debug)]
pub struct Bytes1 {
    #[serde(with = "serde_bytes")]
    pub b: Vec<u8>,
}
fam!(Bytes1, "struct{serde_bytes}", vec![Bytes1 { b: vec![] }, Bytes1 { b: vec![0, 34, 92, 255] }]);

fam!(Box<[u8]>, "Box<[u8]>", vec![vec![].into_boxed_slice(), vec![0u8, 255].into_boxed_slice()]);

fam!(serde_json::Value, "serde_json::Value", vec![
    serde_json::json!(null),
    serde_json::json!([1, -1, 1.5, "s", true, null, {"a": {"b": []}}]),
    serde_json::json!({"k": "v\n", "n": 18446744073709551615u64, "m": -9223372036854775808i64})
]);

fam!(sonic_rs::Value, "sonic_rs::Value", vec![
    sonic_rs::json!(null),
    sonic_rs::json!([1, -1, 1.5, "s", true, null, {"a": {"b": []}}]),
    sonic_rs::json!({"k": "v\n", "n": 18446744073709551615u64, "m": -9223372036854775808i64})
]);

/// invoke `$m!(T)` for every type of the family
#[macro_export]
macro_rules! for_each_fam {
    ($m:ident) => {
        $m!(i8);
        $m!(i16);
        $m!(i32);
        $m!(i64);
        $m!(i128);
        $m!(u8);
        $m!(u16);
        $m!(u32);
        $m!(u64);
        $m!(u128);
        $m!(f32);
        $m!(f64);
        $m!(bool);
        $m!(char);
        $m!(String);
        $m!(());
        $m!(Option<u8>);
        $m!(Option<Option<bool>>);
        $m!(Option<String>);
        $m!((u8, String));
        $m!((i64, f64, bool));
        $m!([i16; 3]);
        $m!(Vec<i32>);
        $m!(Vec<Option<String>>);
        $m!(Vec<Vec<u8>>);
        $m!(Vec<f64>);
        $m!(std::collections::BTreeMap<String, i32>);
        $m!(std::collections::BTreeMap<i32, bool>);
        $m!(std::collections::BTreeMap<u64, u8>);
        $m!(std::collections::BTreeMap<i128, u8>);
        $m!(std::collections::BTreeMap<bool, u8>);
        $m!(std::collections::BTreeMap<char, u8>);
        $m!(std::collections::BTreeMap<$crate::types::UnitEnum, u8>);
        $m!(std::collections::BTreeMap<String, Vec<Option<bool>>>);
        $m!($crate::types::UnitEnum);
        $m!($crate::types::UnitStruct);
        $m!($crate::types::Newtype);
        $m!($crate::types::TupleStruct);
        $m!($crate::types::Plain);
        $m!($crate::types::Strict);
        $m!($crate::types::Nested);
        $m!($crate::types::Shapes);
        $m!($crate::types::Internal);
        $m!($crate::types::Adjacent);
        $m!($crate::types::Untagged);
        $m!($crate::types::Flat);
        $m!($crate::types::Bytes1);
        $m!(Box<[u8]>);
        $m!(serde_json::Value);
    };
}
