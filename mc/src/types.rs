//! The "C04 type family": representative Rust types with a finite universe of values each.
//! Used by C04 (typed deserialization vs serde_json), C05 (serializer output), C19 (DOM route).

use std::collections::BTreeMap;

use serde::{de::DeserializeOwned, Deserialize, Serialize};

pub trait Fam: Serialize + DeserializeOwned + PartialEq + std::fmt::Debug + 'static {
    const NAME: &'static str;
    fn universe() -> Vec<Self>;
    /// the larger value space of the thorough tier (systematically generated: all values of the
    /// small types, all short sequences / subsets / field combinations of the composite ones)
    fn universe_deep() -> Vec<Self> {
        Self::universe()
    }
}

macro_rules! fam {
    ($t:ty, $name:expr, $u:expr) => {
        impl Fam for $t {
            const NAME: &'static str = $name;
            fn universe() -> Vec<Self> {
                $u
            }
        }
    };
    ($t:ty, $name:expr, $u:expr, deep $d:expr) => {
        impl Fam for $t {
            const NAME: &'static str = $name;
            fn universe() -> Vec<Self> {
                $u
            }
            fn universe_deep() -> Vec<Self> {
                let mut v: Vec<Self> = $u;
                v.extend($d);
                v
            }
        }
    };
}

// generators for the deep universes ---------------------------------------------------------

/// all sequences of length <= max_len over `alpha`
pub fn seqs<T: Clone>(alpha: &[T], max_len: u32) -> Vec<Vec<T>> {
    let k = alpha.len() as u64;
    let mut out = vec![];
    let mut idx = vec![];
    for i in 0..crate::gen::seq_count(k, max_len) {
        crate::gen::nth_seq(k, max_len, i, &mut idx);
        out.push(idx.iter().map(|j| alpha[*j as usize].clone()).collect());
    }
    out
}

/// all subsets of `keys`, each key mapped by `val`
pub fn submaps<K: Ord + Clone, V>(keys: &[K], val: impl Fn(usize, &K) -> V) -> Vec<BTreeMap<K, V>> {
    (0..(1u32 << keys.len())).map(|m| keys.iter().enumerate().filter(|(i, _)| m & (1 << i) != 0).map(|(i, k)| (k.clone(), val(i, k))).collect()).collect()
}

/// +-2^k, +-2^k+-1, +-10^k, +-10^k+-1 within i128, filtered by the caller
pub fn boundary_ints() -> Vec<i128> {
    let mut v: Vec<i128> = vec![0];
    for k in 0..127u32 {
        let p = 1i128 << k;
        for d in [-1i128, 0, 1] {
            v.push(p + d);
            v.push(-(p + d));
        }
    }
    let mut t = 1i128;
    for _ in 0..38 {
        for d in [-1i128, 0, 1] {
            v.push(t + d);
            v.push(-(t + d));
        }
        t *= 10;
    }
    v.push(i128::MIN);
    v.push(i128::MAX);
    v.sort();
    v.dedup();
    v
}
macro_rules! ints_in {
    ($t:ty) => {
        boundary_ints().into_iter().filter_map(|x| <$t>::try_from(x).ok()).collect::<Vec<$t>>()
    };
}
fn boundary_u128() -> Vec<u128> {
    let mut v: Vec<u128> = boundary_ints().into_iter().filter_map(|x| u128::try_from(x).ok()).collect();
    for k in 126..128u32 {
        let p = 1u128 << k;
        v.extend([p - 1, p, p + 1]);
    }
    v.push(u128::MAX);
    v.push(u128::MAX - 1);
    v
}

pub const STR_CHARS: &[char] = &['a', '"', '\\', '\n', '\u{1}', '\u{e9}', '\u{1f600}', '/'];
pub fn short_strings(max_len: u32) -> Vec<String> {
    seqs(STR_CHARS, max_len).into_iter().map(|cs| cs.into_iter().collect()).collect()
}
/// a special character at the end / start of plain runs of every length (escape-scanner blocks)
pub fn long_strings() -> Vec<String> {
    let mut v = vec![];
    for n in 0..=70usize {
        for c in ['"', '\\', '\u{1f}', '\u{e9}'] {
            v.push(format!("{}{}", "p".repeat(n), c));
            v.push(format!("{}{}{}", c, "q".repeat(n), c));
        }
    }
    v
}
fn f32_patterns() -> Vec<f32> {
    let mut v = vec![];
    for e in 0..255u32 {
        for m in [0u32, 1, 2, 0x7f_ffff, 0x40_0000, 0x2a_aaaa, 0x55_5555, 0x12_3456] {
            for s in [0u32, 1 << 31] {
                v.push(f32::from_bits(s | (e << 23) | m));
            }
        }
    }
    v
}
fn f64_deep() -> Vec<f64> {
    crate::props::c08::f64_patterns().into_iter().step_by(7).map(f64::from_bits).filter(|f| f.is_finite()).collect()
}

fam!(i8, "i8", vec![i8::MIN, -1, 0, 1, i8::MAX], deep (i8::MIN..=i8::MAX).collect::<Vec<_>>());
fam!(i16, "i16", vec![i16::MIN, -129, -1, 0, 255, i16::MAX], deep (i16::MIN..=i16::MAX).collect::<Vec<_>>());
fam!(i32, "i32", vec![i32::MIN, -32769, 0, 65536, i32::MAX], deep ints_in!(i32));
fam!(i64, "i64", vec![i64::MIN, i64::MIN + 1, -(1 << 53) - 1, -1, 0, 1 << 53, i64::MAX], deep ints_in!(i64));
fam!(i128, "i128", vec![i128::MIN, i64::MIN as i128 - 1, i64::MIN as i128, -1, 0, u64::MAX as i128, u64::MAX as i128 + 1, i128::MAX], deep boundary_ints());
fam!(u8, "u8", vec![0, 1, 127, 128, u8::MAX], deep (0..=u8::MAX).collect::<Vec<_>>());
fam!(u16, "u16", vec![0, 256, u16::MAX], deep (0..=u16::MAX).collect::<Vec<_>>());
fam!(u32, "u32", vec![0, 65536, u32::MAX], deep ints_in!(u32));
fam!(u64, "u64", vec![0, 1, (1 << 53) + 1, i64::MAX as u64, i64::MAX as u64 + 1, u64::MAX], deep ints_in!(u64));
fam!(u128, "u128", vec![0, u64::MAX as u128, u64::MAX as u128 + 1, 10u128.pow(38), u128::MAX], deep boundary_u128());
fam!(f32, "f32", vec![0.0, -0.0, 1.0, -1.5, 0.1, f32::MIN_POSITIVE, f32::MAX, f32::MIN, 16777216.0, 1e-45, 3.4028235e38], deep f32_patterns());
fam!(f64, "f64", vec![0.0, -0.0, 1.0, -1.5, 0.1, 1e21, 1e-7, f64::MIN_POSITIVE, 5e-324, f64::MAX, f64::MIN, 9007199254740993.0, 1.7976931348623157e308], deep f64_deep());
fam!(bool, "bool", vec![true, false]);
fam!(char, "char", vec!['a', '"', '\\', '\n', '\u{0}', '\u{1f}', '\u{7f}', '\u{e9}', '\u{ffff}', '\u{1f600}'], deep (0..0x11_0000u32).filter_map(char::from_u32).collect::<Vec<_>>());
fam!(String, "String", vec![
    "".into(), "a".into(), "\"".into(), "\\".into(), "\n\t\r\u{8}\u{c}".into(), "\u{0}\u{1f}\u{7f}".into(), "\u{e9}\u{1f600}".into(),
    "x".repeat(31), "y".repeat(32), format!("{}\"", "z".repeat(63)), "1".into(), "true".into(), "null".into()
], deep { let mut v = short_strings(4); v.extend(long_strings()); v });
fam!((), "unit", vec![()]);
fam!(Option<u8>, "Option<u8>", vec![None, Some(0), Some(255)], deep (0..=u8::MAX).map(Some).collect::<Vec<_>>());
fam!(Option<Option<bool>>, "Option<Option<bool>>", vec![None, Some(Some(true)), Some(Some(false))]);
fam!(Option<String>, "Option<String>", vec![None, Some("".into()), Some("null".into())], deep short_strings(3).into_iter().map(Some).collect::<Vec<_>>());
fam!((u8, String), "(u8,String)", vec![(0, "".into()), (255, "a\"b".into())], deep { let mut v = vec![]; for a in [0u8, 9, 255] { for b in short_strings(2) { v.push((a, b)); } } v });
fam!((i64, f64, bool), "(i64,f64,bool)", vec![(i64::MIN, -0.0, true), (0, 1.5, false)], deep { let mut v = vec![]; for a in [i64::MIN, -1, 0, i64::MAX] { for b in [0.0f64, -0.0, 1.5, 1e300, 5e-324, -2.5e-7] { for c in [true, false] { v.push((a, b, c)); } } } v });
fam!([i16; 3], "[i16;3]", vec![[0, 0, 0], [i16::MIN, -1, i16::MAX]], deep seqs(&[i16::MIN, -1, 0, i16::MAX], 3).into_iter().filter(|s| s.len() == 3).map(|s| [s[0], s[1], s[2]]).collect::<Vec<_>>());
fam!(Vec<i32>, "Vec<i32>", vec![vec![], vec![0], vec![i32::MIN, i32::MAX], vec![1; 40]], deep seqs(&[i32::MIN, -1, 0, i32::MAX], 4));
fam!(Vec<Option<String>>, "Vec<Option<String>>", vec![vec![], vec![None], vec![Some("a".into()), None, Some("\n".into())]], deep seqs(&[None, Some(String::new()), Some("\"".to_string()), Some("\u{e9}\n".to_string())], 4));
fam!(Vec<Vec<u8>>, "Vec<Vec<u8>>", vec![vec![], vec![vec![]], vec![vec![1, 2], vec![], vec![255]]], deep seqs(&[vec![], vec![0u8], vec![255u8, 1]], 4));
fam!(Vec<f64>, "Vec<f64>", vec![vec![], vec![0.5, -0.0, 1e300], vec![1.0; 17]], deep seqs(&[0.5f64, -0.0, 1e300, 5e-324], 3));

fn bm<K: Ord, V>(v: Vec<(K, V)>) -> BTreeMap<K, V> {
    v.into_iter().collect()
}
fam!(BTreeMap<String, i32>, "BTreeMap<String,i32>", vec![bm(vec![]), bm(vec![("a".into(), 1)]), bm(vec![("".into(), 0), ("a\"\n".into(), -1), ("\u{e9}".into(), i32::MAX)])], deep submaps(&["".to_string(), "a".into(), "\"".into(), "\n".into(), "\u{e9}".into(), "a\\".into(), "b".repeat(40)], |i, _| [0, -1, i32::MAX, i32::MIN][i % 4]));
fam!(BTreeMap<i32, bool>, "BTreeMap<i32,bool>", vec![bm(vec![]), bm(vec![(0, true)]), bm(vec![(i32::MIN, false), (-1, true), (i32::MAX, true)])], deep submaps(&[i32::MIN, -1, 0, 1, 10, i32::MAX], |i, _| i % 2 == 0));
fam!(BTreeMap<u64, u8>, "BTreeMap<u64,u8>", vec![bm(vec![(0, 0)]), bm(vec![(u64::MAX, 255), (1, 1)])], deep submaps(&[0u64, 1, 1 << 53, i64::MAX as u64 + 1, u64::MAX], |i, _| i as u8));
fam!(BTreeMap<i128, u8>, "BTreeMap<i128,u8>", vec![bm(vec![(0, 0)]), bm(vec![(i128::MIN, 1), (u64::MAX as i128 + 1, 2)])], deep submaps(&[i128::MIN, i64::MIN as i128 - 1, -1, 0, u64::MAX as i128 + 1, i128::MAX], |i, _| i as u8));
fam!(BTreeMap<bool, u8>, "BTreeMap<bool,u8>", vec![bm(vec![]), bm(vec![(true, 1), (false, 0)])], deep submaps(&[false, true], |i, _| i as u8));
fam!(BTreeMap<char, u8>, "BTreeMap<char,u8>", vec![bm(vec![('a', 1)]), bm(vec![('"', 1), ('\u{e9}', 2), ('\n', 3)])], deep submaps(&['a', '"', '\\', '\n', '\u{1}', '\u{e9}', '\u{1f600}'], |i, _| i as u8));
fam!(BTreeMap<UnitEnum, u8>, "BTreeMap<UnitEnum,u8>", vec![bm(vec![]), bm(vec![(UnitEnum::A, 1), (UnitEnum::B, 2)])], deep submaps(&[UnitEnum::A, UnitEnum::B, UnitEnum::C], |i, _| i as u8));
fam!(BTreeMap<String, Vec<Option<bool>>>, "BTreeMap<String,Vec<Option<bool>>>", vec![bm(vec![("k".into(), vec![])]), bm(vec![("a".into(), vec![None, Some(true)]), ("b".into(), vec![Some(false)])])], deep submaps(&["k".to_string(), "\"".into(), "".into()], |i, _| seqs(&[None, Some(true), Some(false)], 2)[(i * 5 + 3) % 13].clone()));

#[derive(Serialize, Deserialize, PartialEq, Eq, PartialOrd, Ord, Debug, Clone, Copy)]
pub enum UnitEnum {
    A,
    B,
    #[serde(rename = "c\"x")]
    C,
}
fam!(UnitEnum, "UnitEnum", vec![UnitEnum::A, UnitEnum::B, UnitEnum::C]);

#[derive(Serialize, Deserialize, PartialEq, Debug)]
pub struct UnitStruct;
fam!(UnitStruct, "UnitStruct", vec![UnitStruct]);

#[derive(Serialize, Deserialize, PartialEq, Debug)]
pub struct Newtype(pub u16);
fam!(Newtype, "Newtype(u16)", vec![Newtype(0), Newtype(u16::MAX)], deep (0..=u16::MAX).map(Newtype).collect::<Vec<_>>());

#[derive(Serialize, Deserialize, PartialEq, Debug)]
pub struct TupleStruct(pub i8, pub String);
fam!(TupleStruct, "TupleStruct(i8,String)", vec![TupleStruct(-1, "".into()), TupleStruct(i8::MAX, "q".into())], deep { let mut v = vec![]; for a in [i8::MIN, -1, 0, i8::MAX] { for b in short_strings(2) { v.push(TupleStruct(a, b)); } } v });

#[derive(Serialize, Deserialize, PartialEq, Debug)]
pub struct Plain {
    pub a: u8,
    pub b: String,
    pub c: Option<bool>,
    #[serde(default)]
    pub d: Vec<i16>,
}
fam!(Plain, "struct Plain", vec![
    Plain { a: 0, b: "".into(), c: None, d: vec![] },
    Plain { a: 255, b: "s\"".into(), c: Some(true), d: vec![-1, 1] }
], deep {
    let mut v = vec![];
    for a in [0u8, 7, 255] {
        for b in short_strings(1) {
            for c in [None, Some(true), Some(false)] {
                for d in [vec![], vec![0i16], vec![i16::MIN, i16::MAX, -1]] {
                    v.push(Plain { a, b: b.clone(), c, d });
                }
            }
        }
    }
    v
});

#[derive(Serialize, Deserialize, PartialEq, Debug)]
#[serde(deny_unknown_fields)]
pub struct Strict {
    pub a: i32,
    #[serde(rename = "b-b")]
    pub b: Option<String>,
}
fam!(Strict, "struct Strict(deny_unknown_fields)", vec![Strict { a: -1, b: None }, Strict { a: 7, b: Some("x".into()) }], deep {
    let mut v = vec![];
    for a in [i32::MIN, -1, 0, i32::MAX] {
        v.push(Strict { a, b: None });
        for b in short_strings(2) {
            v.push(Strict { a, b: Some(b) });
        }
    }
    v
});

#[derive(Serialize, Deserialize, PartialEq, Debug)]
pub struct Nested {
    pub p: Plain,
    pub n: Option<Box<Nested>>,
    pub m: BTreeMap<String, Newtype>,
}
fam!(Nested, "struct Nested", vec![
    Nested { p: Plain { a: 1, b: "b".into(), c: None, d: vec![] }, n: None, m: bm(vec![]) },
    Nested {
        p: Plain { a: 2, b: "".into(), c: Some(false), d: vec![0] },
        n: Some(Box::new(Nested { p: Plain { a: 3, b: "i".into(), c: None, d: vec![] }, n: None, m: bm(vec![("k".into(), Newtype(5))]) })),
        m: bm(vec![("x".into(), Newtype(1)), ("y".into(), Newtype(2))])
    }
]);

#[derive(Serialize, Deserialize, PartialEq, Debug)]
pub enum Shapes {
    Unit,
    New(i64),
    Tup(u8, String),
    Struct { a: bool, b: Option<u8> },
    NewVec(Vec<Shapes>),
}
fam!(Shapes, "enum Shapes", vec![
    Shapes::Unit,
    Shapes::New(i64::MIN),
    Shapes::Tup(1, "t".into()),
    Shapes::Struct { a: true, b: None },
    Shapes::Struct { a: false, b: Some(9) },
    Shapes::NewVec(vec![]),
    Shapes::NewVec(vec![Shapes::Unit, Shapes::New(0)])
], deep {
    let leaf = || -> Vec<Shapes> {
        let mut v = vec![Shapes::Unit];
        for x in [i64::MIN, -1, 0, 1 << 53, i64::MAX] {
            v.push(Shapes::New(x));
        }
        for a in [0u8, 255] {
            for b in short_strings(1) {
                v.push(Shapes::Tup(a, b));
            }
        }
        for a in [true, false] {
            for b in [None, Some(0u8), Some(255)] {
                v.push(Shapes::Struct { a, b });
            }
        }
        v
    };
    let mut v = leaf();
    // vectors of up to two leaves, and one level of nesting
    let l = leaf();
    for i in 0..l.len() {
        v.push(Shapes::NewVec(vec![leaf().swap_remove(i)]));
        let j = (i * 7 + 3) % l.len();
        v.push(Shapes::NewVec(vec![leaf().swap_remove(i), Shapes::NewVec(vec![leaf().swap_remove(j)]), leaf().swap_remove(j)]));
    }
    v
});

#[derive(Serialize, Deserialize, PartialEq, Debug)]
#[serde(tag = "t")]
pub enum Internal {
    A { x: u8 },
    B { y: String, z: Option<i32> },
    C,
}
fam!(Internal, "enum Internal(tag)", vec![Internal::A { x: 1 }, Internal::B { y: "y".into(), z: None }, Internal::B { y: "".into(), z: Some(-5) }, Internal::C], deep {
    let mut v = vec![];
    for x in [0u8, 1, 255] {
        v.push(Internal::A { x });
    }
    for y in short_strings(2) {
        for z in [None, Some(i32::MIN), Some(0), Some(i32::MAX)] {
            v.push(Internal::B { y: y.clone(), z });
        }
    }
    v
});

#[derive(Serialize, Deserialize, PartialEq, Debug)]
#[serde(tag = "t", content = "c")]
pub enum Adjacent {
    A(u8),
    B { y: String },
    C,
    D(i8, bool),
}
fam!(Adjacent, "enum Adjacent(tag,content)", vec![Adjacent::A(3), Adjacent::B { y: "q".into() }, Adjacent::C, Adjacent::D(-1, true)], deep {
    let mut v = vec![];
    for x in 0..=u8::MAX {
        v.push(Adjacent::A(x));
    }
    for y in short_strings(2) {
        v.push(Adjacent::B { y });
    }
    for a in [i8::MIN, -1, 0, i8::MAX] {
        for b in [true, false] {
            v.push(Adjacent::D(a, b));
        }
    }
    v
});

#[derive(Serialize, Deserialize, PartialEq, Debug)]
#[serde(untagged)]
pub enum Untagged {
    I(i64),
    S(String),
    V(Vec<u8>),
    M { k: bool },
    N(()),
}
fam!(Untagged, "enum Untagged", vec![Untagged::I(-7), Untagged::S("s".into()), Untagged::V(vec![1, 2]), Untagged::M { k: true }, Untagged::N(())], deep {
    let mut v = vec![];
    for x in ints_in!(i64) {
        v.push(Untagged::I(x));
    }
    for y in short_strings(2) {
        v.push(Untagged::S(y));
    }
    for b in seqs(&[0u8, 1, 255], 3) {
        v.push(Untagged::V(b));
    }
    v.push(Untagged::M { k: false });
    v
});

#[derive(Serialize, Deserialize, PartialEq, Debug)]
pub struct Flat {
    pub id: u32,
    #[serde(flatten)]
    pub rest: BTreeMap<String, i64>,
}
fam!(Flat, "struct Flat(flatten)", vec![Flat { id: 1, rest: bm(vec![]) }, Flat { id: 2, rest: bm(vec![("x".into(), -1), ("y".into(), 1 << 40)]) }], deep {
    let mut v = vec![];
    for id in [0u32, 1, u32::MAX] {
        for rest in submaps(&["x".to_string(), "".into(), "\"".into(), "idx".into()], |i, _| [0i64, -1, 1 << 40, i64::MIN][i % 4]) {
            v.push(Flat { id, rest });
        }
    }
    v
});

#[derive(Serialize, Deserialize, PartialEq, Debug)]
pub struct Bytes1 {
    #[serde(with = "serde_bytes")]
    pub b: Vec<u8>,
}
fam!(Bytes1, "struct{serde_bytes}", vec![Bytes1 { b: vec![] }, Bytes1 { b: vec![0, 34, 92, 255] }], deep seqs(&[0u8, 34, 92, 255], 4).into_iter().map(|b| Bytes1 { b }).collect::<Vec<_>>());

/// names that need escaping when written (field, variant and struct-variant field names)
#[derive(Serialize, Deserialize, PartialEq, Debug)]
pub struct Renamed {
    #[serde(rename = "say \"hi\"")]
    pub a: u8,
    #[serde(rename = "C:\\dir\n")]
    pub b: Option<String>,
    #[serde(rename = "\u{e9}\u{1f}")]
    pub c: bool,
}
fam!(Renamed, "struct Renamed(escaped names)", vec![Renamed { a: 7, b: None, c: true }, Renamed { a: 0, b: Some("x\"".into()), c: false }]);

#[derive(Serialize, Deserialize, PartialEq, Debug)]
pub enum RenamedEnum {
    #[serde(rename = "v\"1")]
    V {
        #[serde(rename = "f\\1\t")]
        f: u8,
    },
    #[serde(rename = "t\t")]
    T(u8, bool),
    #[serde(rename = "n\n")]
    N(String),
    #[serde(rename = "u\u{0}")]
    U,
}
fam!(RenamedEnum, "enum RenamedEnum(escaped names)", vec![RenamedEnum::V { f: 1 }, RenamedEnum::T(2, true), RenamedEnum::N("s".into()), RenamedEnum::U]);

/// variants with nothing in them and newtype variants whose payload is written as null
#[derive(Serialize, Deserialize, PartialEq, Debug)]
pub enum EdgeVariants {
    T0(),
    S0 {},
    Opt(Option<u8>),
    UnitPayload(()),
    StructPayload(UnitStruct),
    Nested(Option<Option<bool>>),
    Plain,
}
fam!(EdgeVariants, "enum EdgeVariants(empty and null payloads)", vec![
    EdgeVariants::T0(),
    EdgeVariants::S0 {},
    EdgeVariants::Opt(None),
    EdgeVariants::Opt(Some(3)),
    EdgeVariants::UnitPayload(()),
    EdgeVariants::StructPayload(UnitStruct),
    EdgeVariants::Nested(None),
    EdgeVariants::Nested(Some(Some(true))),
    EdgeVariants::Plain
]);

/// map keys that are newtype structs around scalars
#[derive(Serialize, Deserialize, PartialEq, Eq, PartialOrd, Ord, Debug, Clone, Copy)]
pub struct KeyId(pub u64);
#[derive(Serialize, Deserialize, PartialEq, Eq, PartialOrd, Ord, Debug, Clone, Copy)]
pub struct KeyFlag(pub bool);
#[derive(Serialize, Deserialize, PartialEq, Eq, PartialOrd, Ord, Debug, Clone)]
pub struct KeyName(pub String);
fam!(BTreeMap<KeyId, Vec<u8>>, "BTreeMap<KeyId(u64),Vec<u8>>", vec![bm(vec![]), bm(vec![(KeyId(7), vec![1, 2]), (KeyId(u64::MAX), vec![])])]);
fam!(BTreeMap<KeyFlag, u8>, "BTreeMap<KeyFlag(bool),u8>", vec![bm(vec![(KeyFlag(true), 3)]), bm(vec![(KeyFlag(false), 0), (KeyFlag(true), 1)])]);
fam!(BTreeMap<KeyName, i8>, "BTreeMap<KeyName(String),i8>", vec![bm(vec![(KeyName("a\"b".into()), -1)]), bm(vec![(KeyName("".into()), 0), (KeyName("k".into()), 1)])]);

/// map keys that are floats (ordered by their bits)
#[derive(Serialize, Deserialize, Debug, Clone, Copy)]
pub struct KeyF32(pub f32);
impl PartialEq for KeyF32 {
    fn eq(&self, o: &Self) -> bool {
        self.0.to_bits() == o.0.to_bits()
    }
}
impl Eq for KeyF32 {}
impl PartialOrd for KeyF32 {
    fn partial_cmp(&self, o: &Self) -> Option<std::cmp::Ordering> {
        Some(self.cmp(o))
    }
}
impl Ord for KeyF32 {
    fn cmp(&self, o: &Self) -> std::cmp::Ordering {
        self.0.total_cmp(&o.0)
    }
}
#[derive(Serialize, Deserialize, Debug, Clone, Copy)]
pub struct KeyF64(pub f64);
impl PartialEq for KeyF64 {
    fn eq(&self, o: &Self) -> bool {
        self.0.to_bits() == o.0.to_bits()
    }
}
impl Eq for KeyF64 {}
impl PartialOrd for KeyF64 {
    fn partial_cmp(&self, o: &Self) -> Option<std::cmp::Ordering> {
        Some(self.cmp(o))
    }
}
impl Ord for KeyF64 {
    fn cmp(&self, o: &Self) -> std::cmp::Ordering {
        self.0.total_cmp(&o.0)
    }
}
fam!(BTreeMap<KeyF32, u8>, "BTreeMap<KeyFloat32,u8>", vec![bm(vec![(KeyF32(0.5), 1)]), bm(vec![(KeyF32(0.1), 1), (KeyF32(-3.3), 2), (KeyF32(1e-7), 3), (KeyF32(16777216.0), 4)])]);
fam!(BTreeMap<KeyF64, u8>, "BTreeMap<KeyF64(f64),u8>", vec![bm(vec![(KeyF64(0.5), 1)]), bm(vec![(KeyF64(0.1), 1), (KeyF64(-3.3), 2), (KeyF64(1e-7), 3), (KeyF64(5e-324), 4), (KeyF64(123456.75), 5)])]);

fam!(Box<[u8]>, "Box<[u8]>", vec![vec![].into_boxed_slice(), vec![0u8, 255].into_boxed_slice()], deep seqs(&[0u8, 34, 92, 255], 4).into_iter().map(|b| b.into_boxed_slice()).collect::<Vec<_>>());

fam!(serde_json::Value, "serde_json::Value", vec![
    serde_json::json!(null),
    serde_json::json!([1, -1, 1.5, "s", true, null, {"a": {"b": []}}]),
    serde_json::json!({"k": "v\n", "n": 18446744073709551615u64, "m": -9223372036854775808i64})
]);

fam!(sonic_rs::Value, "sonic_rs::Value", vec![
    sonic_rs::json!(null),
    sonic_rs::json!([1, -1, 1.5, "s", true, null, {"a": {"b": []}}]),
    sonic_rs::json!({"k": "v\n", "n": 18446744073709551615u64, "m": -9223372036854775808i64})
]);

/// invoke `$m!(T)` for every type of the family
#[macro_export]
macro_rules! for_each_fam {
    ($m:ident) => {
        $m!(i8);
        $m!(i16);
        $m!(i32);
        $m!(i64);
        $m!(i128);
        $m!(u8);
        $m!(u16);
        $m!(u32);
        $m!(u64);
        $m!(u128);
        $m!(f32);
        $m!(f64);
        $m!(bool);
        $m!(char);
        $m!(String);
        $m!(());
        $m!(Option<u8>);
        $m!(Option<Option<bool>>);
        $m!(Option<String>);
        $m!((u8, String));
        $m!((i64, f64, bool));
        $m!([i16; 3]);
        $m!(Vec<i32>);
        $m!(Vec<Option<String>>);
        $m!(Vec<Vec<u8>>);
        $m!(Vec<f64>);
        $m!(std::collections::BTreeMap<String, i32>);
        $m!(std::collections::BTreeMap<i32, bool>);
        $m!(std::collections::BTreeMap<u64, u8>);
        $m!(std::collections::BTreeMap<i128, u8>);
        $m!(std::collections::BTreeMap<bool, u8>);
        $m!(std::collections::BTreeMap<char, u8>);
        $m!(std::collections::BTreeMap<$crate::types::UnitEnum, u8>);
        $m!(std::collections::BTreeMap<String, Vec<Option<bool>>>);
        $m!($crate::types::UnitEnum);
        $m!($crate::types::UnitStruct);
        $m!($crate::types::Newtype);
        $m!($crate::types::TupleStruct);
        $m!($crate::types::Plain);
        $m!($crate::types::Strict);
        $m!($crate::types::Nested);
        $m!($crate::types::Shapes);
        $m!($crate::types::Internal);
        $m!($crate::types::Adjacent);
        $m!($crate::types::Untagged);
        $m!($crate::types::Flat);
        $m!($crate::types::Bytes1);
        $m!(std::collections::BTreeMap<$crate::types::KeyId, Vec<u8>>);
        $m!(std::collections::BTreeMap<$crate::types::KeyFlag, u8>);
        $m!(std::collections::BTreeMap<$crate::types::KeyName, i8>);
        $m!(std::collections::BTreeMap<$crate::types::KeyF32, u8>);
        $m!(std::collections::BTreeMap<$crate::types::KeyF64, u8>);
        $m!($crate::types::EdgeVariants);
        $m!($crate::types::Renamed);
        $m!($crate::types::RenamedEnum);
        $m!(Box<[u8]>);
        $m!(serde_json::Value);
    };
}
