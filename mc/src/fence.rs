//! Memory oracle (DESIGN §2.3): a global allocator that, while a thread is *armed*, gives every
//! allocation its own pages inside a large PROT_NONE reservation, right-aligned against an
//! inaccessible guard page (or left-aligned, guard page before), never reuses freed pages and
//! keeps a slot table.  Out-of-bounds reads/writes, use-after-free => SIGSEGV at the access;
//! double free / free of a wrong size or address => report + abort; leaks => live counter.
//!
//! Nothing in /repo is changed for this.

use std::{
    alloc::{GlobalAlloc, Layout, System},
    cell::Cell,
    sync::atomic::{AtomicBool, AtomicI64, AtomicU64, AtomicUsize, Ordering},
};

const PAGE: usize = 4096;
const REGION: usize = 2 << 40; // 2 TiB of address space, never committed as a whole
const TABLE_ENTRIES: usize = REGION / PAGE;

pub struct FenceAlloc;

static BASE: AtomicUsize = AtomicUsize::new(0);
static TABLE: AtomicUsize = AtomicUsize::new(0); // *mut u32, one entry per page of the region
static NEXT: AtomicUsize = AtomicUsize::new(0); // bump offset
static LIVE: AtomicI64 = AtomicI64::new(0);
static LIVE_BYTES: AtomicI64 = AtomicI64::new(0);
static TOTAL: AtomicU64 = AtomicU64::new(0);
static LEFT_ALIGNED: AtomicBool = AtomicBool::new(false);
static INIT_LOCK: AtomicBool = AtomicBool::new(false);

thread_local! {
    static ARMED: Cell<bool> = const { Cell::new(false) };
}

const FREED: u32 = u32::MAX;

fn die(msg: &str) -> ! {
    unsafe {
        libc::write(2, msg.as_ptr() as *const libc::c_void, msg.len());
        libc::write(2, b"\n".as_ptr() as *const libc::c_void, 1);
        // distinctive status for the engine: SIGABRT
        libc::abort();
    }
}

unsafe fn init() -> usize {
    let b = BASE.load(Ordering::Acquire);
    if b != 0 {
        return b;
    }
    // spin lock (init happens once per process)
    while INIT_LOCK.swap(true, Ordering::Acquire) {
        std::hint::spin_loop();
    }
    let b = BASE.load(Ordering::Acquire);
    if b != 0 {
        INIT_LOCK.store(false, Ordering::Release);
        return b;
    }
    let flags = libc::MAP_PRIVATE | libc::MAP_ANONYMOUS | libc::MAP_NORESERVE;
    let p = libc::mmap(std::ptr::null_mut(), REGION, libc::PROT_NONE, flags, -1, 0);
    if p == libc::MAP_FAILED {
        die("fence: cannot reserve the address region");
    }
    let t = libc::mmap(std::ptr::null_mut(), TABLE_ENTRIES * 4, libc::PROT_READ | libc::PROT_WRITE, flags, -1, 0);
    if t == libc::MAP_FAILED {
        die("fence: cannot reserve the slot table");
    }
    TABLE.store(t as usize, Ordering::Release);
    // first page stays a guard page
    NEXT.store(PAGE, Ordering::Release);
    BASE.store(p as usize, Ordering::Release);
    INIT_LOCK.store(false, Ordering::Release);
    p as usize
}

#[inline]
fn in_region(p: usize) -> bool {
    let b = BASE.load(Ordering::Relaxed);
    b != 0 && p >= b && p < b + REGION
}

unsafe fn fenced_alloc(layout: Layout) -> *mut u8 {
    let base = init();
    let size = layout.size().max(1);
    let align = layout.align();
    let data_pages = (size + PAGE - 1) / PAGE;
    let span = (data_pages + 1) * PAGE; // + trailing guard page
    let off = NEXT.fetch_add(span, Ordering::Relaxed);
    if off + span > REGION {
        die("fence: address region exhausted");
    }
    let data = base + off;
    if libc::mprotect(data as *mut libc::c_void, data_pages * PAGE, libc::PROT_READ | libc::PROT_WRITE) != 0 {
        die("fence: mprotect failed (vm.max_map_count?)");
    }
    let ptr = if LEFT_ALIGNED.load(Ordering::Relaxed) {
        data
    } else {
        let end = data + data_pages * PAGE;
        (end - size) & !(align - 1)
    };
    let table = TABLE.load(Ordering::Relaxed) as *mut u32;
    *table.add(off / PAGE) = layout.size() as u32;
    LIVE.fetch_add(1, Ordering::Relaxed);
    LIVE_BYTES.fetch_add(layout.size() as i64, Ordering::Relaxed);
    TOTAL.fetch_add(1, Ordering::Relaxed);
    // junk fill so that reads of uninitialised memory are visible as garbage, not zeros
    std::ptr::write_bytes(ptr as *mut u8, 0xA5, layout.size());
    ptr as *mut u8
}

unsafe fn fenced_dealloc(ptr: *mut u8, layout: Layout) {
    let base = BASE.load(Ordering::Relaxed);
    let size = layout.size().max(1);
    let data_pages = (size + PAGE - 1) / PAGE;
    let p = ptr as usize;
    let data = if LEFT_ALIGNED.load(Ordering::Relaxed) {
        p
    } else {
        let end = (p + size + PAGE - 1) & !(PAGE - 1);
        end - data_pages * PAGE
    };
    if data % PAGE != 0 || data < base + PAGE {
        die("FENCE-REPORT: free of an address that was never allocated");
    }
    let table = TABLE.load(Ordering::Relaxed) as *mut u32;
    let e = table.add((data - base) / PAGE);
    let rec = *e;
    if rec == FREED {
        die("FENCE-REPORT: double free");
    }
    if rec != layout.size() as u32 {
        die("FENCE-REPORT: free with a wrong size or of an interior/unknown address");
    }
    *e = FREED;
    // release the memory and make any later access fault
    let flags = libc::MAP_PRIVATE | libc::MAP_ANONYMOUS | libc::MAP_NORESERVE | libc::MAP_FIXED;
    if libc::mmap(data as *mut libc::c_void, data_pages * PAGE, libc::PROT_NONE, flags, -1, 0) == libc::MAP_FAILED {
        die("fence: remap failed");
    }
    LIVE.fetch_sub(1, Ordering::Relaxed);
    LIVE_BYTES.fetch_sub(layout.size() as i64, Ordering::Relaxed);
}

// ------------------------------------------------------------------------------------------
// ledger mode (C18): allocations made while `LEDGER_ON` is set are recorded; freeing one removes it;
// freeing it again (before the address has been handed out again) is a double free

const LEDGER_SLOTS: usize = 512;
static LEDGER_ON: AtomicBool = AtomicBool::new(false);
static LEDGER_LOCK: AtomicBool = AtomicBool::new(false);
static mut LEDGER_LIVE: [usize; LEDGER_SLOTS] = [0; LEDGER_SLOTS];
static mut LEDGER_SIZE: [usize; LEDGER_SLOTS] = [0; LEDGER_SLOTS];
static mut LEDGER_FREED: [usize; LEDGER_SLOTS] = [0; LEDGER_SLOTS];
static LEDGER_DOUBLE_FREES: AtomicUsize = AtomicUsize::new(0);
static LEDGER_OVERFLOW: AtomicBool = AtomicBool::new(false);

fn ledger_lock() {
    while LEDGER_LOCK.swap(true, Ordering::Acquire) {
        std::hint::spin_loop();
    }
}
fn ledger_unlock() {
    LEDGER_LOCK.store(false, Ordering::Release);
}

#[allow(static_mut_refs)]
unsafe fn ledger_on_alloc(p: usize, track: bool, size: usize) {
    ledger_lock();
    // the address is in use again: a later free of it is legitimate
    for e in LEDGER_FREED.iter_mut() {
        if *e == p {
            *e = 0;
        }
    }
    if track {
        match LEDGER_LIVE.iter().position(|e| *e == 0) {
            Some(i) => {
                LEDGER_LIVE[i] = p;
                LEDGER_SIZE[i] = size;
            }
            None => LEDGER_OVERFLOW.store(true, Ordering::Relaxed),
        }
    }
    ledger_unlock();
}

#[allow(static_mut_refs)]
unsafe fn ledger_on_free(p: usize) -> bool {
    ledger_lock();
    let mut double = false;
    if let Some(e) = LEDGER_LIVE.iter_mut().find(|e| **e == p) {
        *e = 0;
        if let Some(f) = LEDGER_FREED.iter_mut().find(|e| **e == 0) {
            *f = p;
        }
    } else if LEDGER_FREED.iter().any(|e| *e == p) {
        double = true;
        LEDGER_DOUBLE_FREES.fetch_add(1, Ordering::Relaxed);
    }
    ledger_unlock();
    double
}

static LEDGER_USED: AtomicBool = AtomicBool::new(false);

/// switch tracking on/off; returns the previous state (save/restore around scheduler calls)
pub fn ledger_track(on: bool) -> bool {
    LEDGER_USED.store(true, Ordering::Relaxed);
    LEDGER_ON.swap(on, Ordering::Relaxed)
}
#[allow(static_mut_refs)]
pub fn ledger_live() -> usize {
    ledger_lock();
    let n = unsafe { LEDGER_LIVE.iter().filter(|e| **e != 0).count() };
    ledger_unlock();
    n
}
#[allow(static_mut_refs)]
pub fn ledger_live_sizes() -> Vec<usize> {
    let prev = ledger_track(false);
    ledger_lock();
    let mut v = [0usize; 16];
    let mut n = 0;
    unsafe {
        for (i, e) in LEDGER_LIVE.iter().enumerate() {
            if *e != 0 && n < 16 {
                v[n] = LEDGER_SIZE[i];
                n += 1;
            }
        }
    }
    ledger_unlock();
    let out = v[..n].to_vec();
    ledger_track(prev);
    out
}
pub fn ledger_double_frees() -> usize {
    LEDGER_DOUBLE_FREES.load(Ordering::Relaxed)
}
pub fn ledger_overflowed() -> bool {
    LEDGER_OVERFLOW.load(Ordering::Relaxed)
}
#[allow(static_mut_refs)]
pub fn ledger_reset() {
    ledger_lock();
    unsafe {
        LEDGER_LIVE = [0; LEDGER_SLOTS];
        LEDGER_FREED = [0; LEDGER_SLOTS];
    }
    LEDGER_DOUBLE_FREES.store(0, Ordering::Relaxed);
    ledger_unlock();
}

unsafe impl GlobalAlloc for FenceAlloc {
    #[inline]
    unsafe fn alloc(&self, layout: Layout) -> *mut u8 {
        let p = if ARMED.try_with(|a| a.get()).unwrap_or(false) { fenced_alloc(layout) } else { System.alloc(layout) };
        if LEDGER_USED.load(Ordering::Relaxed) {
            ledger_on_alloc(p as usize, LEDGER_ON.load(Ordering::Relaxed), layout.size());
        }
        p
    }
    #[inline]
    unsafe fn dealloc(&self, ptr: *mut u8, layout: Layout) {
        let double = LEDGER_USED.load(Ordering::Relaxed) && ledger_on_free(ptr as usize);
        if in_region(ptr as usize) {
            // (a double free dies here with a report)
            fenced_dealloc(ptr, layout)
        } else {
            if double {
                // do not hand a doubly freed block to the system allocator
                return;
            }
            System.dealloc(ptr, layout)
        }
    }
    #[inline]
    unsafe fn alloc_zeroed(&self, layout: Layout) -> *mut u8 {
        if ARMED.try_with(|a| a.get()).unwrap_or(false) {
            let p = self.alloc(layout);
            std::ptr::write_bytes(p, 0, layout.size());
            p
        } else if LEDGER_USED.load(Ordering::Relaxed) {
            let p = self.alloc(layout);
            if !p.is_null() {
                std::ptr::write_bytes(p, 0, layout.size());
            }
            p
        } else {
            System.alloc_zeroed(layout)
        }
    }
    #[inline]
    unsafe fn realloc(&self, ptr: *mut u8, layout: Layout, new_size: usize) -> *mut u8 {
        let armed = ARMED.try_with(|a| a.get()).unwrap_or(false);
        if !armed && !in_region(ptr as usize) && !LEDGER_USED.load(Ordering::Relaxed) {
            return System.realloc(ptr, layout, new_size);
        }
        let new_layout = Layout::from_size_align_unchecked(new_size, layout.align());
        let np = self.alloc(new_layout);
        if !np.is_null() {
            std::ptr::copy_nonoverlapping(ptr, np, layout.size().min(new_size));
            self.dealloc(ptr, layout);
        }
        np
    }
}

pub fn set_left_aligned(on: bool) {
    LEFT_ALIGNED.store(on, Ordering::Relaxed);
}
pub fn live() -> i64 {
    LIVE.load(Ordering::Relaxed)
}
pub fn live_bytes() -> i64 {
    LIVE_BYTES.load(Ordering::Relaxed)
}
pub fn total() -> u64 {
    TOTAL.load(Ordering::Relaxed)
}

/// run `f` with the fence switched off on this thread (harness bookkeeping inside a fenced case)
pub fn unarmed<T>(f: impl FnOnce() -> T) -> T {
    let prev = ARMED.with(|a| a.replace(false));
    struct Reset(bool);
    impl Drop for Reset {
        fn drop(&mut self) {
            ARMED.with(|a| a.set(self.0));
        }
    }
    let _r = Reset(prev);
    f()
}

/// run `f` on the current thread with fenced allocation
pub fn armed<T>(f: impl FnOnce() -> T) -> T {
    let prev = ARMED.with(|a| a.replace(true));
    struct Reset(bool);
    impl Drop for Reset {
        fn drop(&mut self) {
            ARMED.with(|a| a.set(self.0));
        }
    }
    let _r = Reset(prev);
    f()
}

pub struct FencedOutcome<T> {
    pub result: Result<T, String>,
    pub leaked_allocs: i64,
    pub leaked_bytes: i64,
    pub allocations: u64,
}

/// Run `f` armed on a fresh thread (own stack of `stack` bytes, own thread-locals, which are
/// destroyed - and their buffers freed - before the leak count is taken).
/// `f` must drop everything it got from the subject before returning; `T` must not hold heap.
pub fn on_fresh_thread<T: Send + 'static>(stack: usize, f: impl FnOnce() -> T + Send + 'static) -> FencedOutcome<T> {
    let before = live();
    let before_b = live_bytes();
    let t0 = total();
    let h = std::thread::Builder::new()
        .stack_size(stack)
        .spawn(move || crate::engine::guard(|| armed(f)))
        .expect("spawn case thread");
    let result = match h.join() {
        Ok(r) => r,
        Err(_) => Err("case thread panicked outside the guard".to_string()),
    };
    FencedOutcome { result, leaked_allocs: live() - before, leaked_bytes: live_bytes() - before_b, allocations: total() - t0 }
}
