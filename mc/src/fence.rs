//! Memory oracle (DESIGN §2.3): a global allocator that, while a thread is *armed*, gives every
//! allocation its own pages inside a large PROT_NONE reservation, right-aligned against an
//! inaccessible guard page (or left-aligned, guard page before), never reuses freed pages and
//! keeps a slot table.  Out-of-bounds reads/writes, use-after-free => SIGSEGV at the access;
//! double free / free of a wrong size or address => report + abort; leaks => live counter.
//!
//! Nothing in /repo is changed for this.

use std::{
    alloc::{GlobalAlloc, Layout, System},
    cell::Cell,
    sync::atomic::{AtomicBool, AtomicI64, AtomicU64, AtomicUsize, Ordering},
};

const PAGE: usize = 4096;
const REGION: usize = 2 << 40; // 2 TiB of address space, never committed as a whole
const TABLE_ENTRIES: usize = REGION / PAGE;

pub struct FenceAlloc;

static BASE: AtomicUsize = AtomicUsize::new(0);
static TABLE: AtomicUsize = AtomicUsize::new(0); // *mut u32, one entry per page of the region
static NEXT: AtomicUsize = AtomicUsize::new(0); // bump offset
static LIVE: AtomicI64 = AtomicI64::new(0);
static LIVE_BYTES: AtomicI64 = AtomicI64::new(0);
static TOTAL: AtomicU64 = AtomicU64::new(0);
static LEFT_ALIGNED: AtomicBool = AtomicBool::new(false);
static INIT_LOCK: AtomicBool = AtomicBool::new(false);

thread_local! {
    static ARMED: Cell<bool> = const { Cell::new(false) };
}

const FREED: u32 = u32::MAX;

fn die(msg: &str) -> ! {
    unsafe {
        libc::write(2, msg.as_ptr() as *const libc::c_void, msg.len());
        libc::write(2, b"\n".as_ptr() as *const libc::c_void, 1);
        // distinctive status for the engine: SIGABRT
        libc::abort();
    }
}

unsafe fn init() -> usize {
    let b = BASE.load(Ordering::Acquire);
    if b != 0 {
        return b;
    }
    // spin lock (init happens once per process)
    while INIT_LOCK.swap(true, Ordering::Acquire) {
        std::hint::spin_loop();
    }
    let b = BASE.load(Ordering::Acquire);
    if b != 0 {
        INIT_LOCK.store(false, Ordering::Release);
        return b;
    }
    let flags = libc::MAP_PRIVATE | libc::MAP_ANONYMOUS | libc::MAP_NORESERVE;
    let p = libc::mmap(std::ptr::null_mut(), REGION, libc::PROT_NONE, flags, -1, 0);
    if p == libc::MAP_FAILED {
        die("fence: cannot reserve the address region");
    }
    let t = libc::mmap(std::ptr::null_mut(), TABLE_ENTRIES * 4, libc::PROT_READ | libc::PROT_WRITE, flags, -1, 0);
    if t == libc::MAP_FAILED {
        die("fence: cannot reserve the slot table");
    }
    TABLE.store(t as usize, Ordering::Release);
    // first page stays a guard page
    NEXT.store(PAGE, Ordering::Release);
    BASE.store(p as usize, Ordering::Release);
    INIT_LOCK.store(false, Ordering::Release);
    p as usize
}

#[inline]
fn in_region(p: usize) -> bool {
    let b = BASE.load(Ordering::Relaxed);
    b != 0 && p >= b && p < b + REGION
}

unsafe fn fenced_alloc(layout: Layout) -> *mut u8 {
    let base = init();
    let size = layout.size().max(1);
    let align = layout.align();
    let data_pages = (size + PAGE - 1) / PAGE;
    let span = (data_pages + 1) * PAGE; // + trailing guard page
    let off = NEXT.fetch_add(span, Ordering::Relaxed);
    if off + span > REGION {
        die("fence: address region exhausted");
    }
    let data = base + off;
    if libc::mprotect(data as *mut libc::c_void, data_pages * PAGE, libc::PROT_READ | libc::PROT_WRITE) != 0 {
        die("fence: mprotect failed (vm.max_map_count?)");
    }
    let ptr = if LEFT_ALIGNED.load(Ordering::Relaxed) {
        data
    } else {
        let end = data + data_pages * PAGE;
        (end - size) & !(align - 1)
    };
    let table = TABLE.load(Ordering::Relaxed) as *mut u32;
    *table.add(off / PAGE) = layout.size() as u32;
    LIVE.fetch_add(1, Ordering::Relaxed);
    LIVE_BYTES.fetch_add(layout.size() as i64, Ordering::Relaxed);
    TOTAL.fetch_add(1, Ordering::Relaxed);
    // junk fill so that reads of uninitialised memory are visible as garbage, not zeros
    std::ptr::write_bytes(ptr as *mut u8, 0xA5, layout.size());
    ptr as *mut u8
}

unsafe fn fenced_dealloc(ptr: *mut u8, layout: Layout) {
    let base = BASE.load(Ordering::Relaxed);
    let size = layout.size().max(1);
    let data_pages = (size + PAGE - 1) / PAGE;
    let p = ptr as usize;
    let data = if LEFT_ALIGNED.load(Ordering::Relaxed) {
        p
    } else {
        let end = (p + size + PAGE - 1) & !(PAGE - 1);
        end - data_pages * PAGE
    };
    if data % PAGE != 0 || data < base + PAGE {
        die("FENCE-REPORT: free of an address that was never allocated");
    }
    let table = TABLE.load(Ordering::Relaxed) as *mut u32;
    let e = table.add((data - base) / PAGE);
    let rec = *e;
    if rec == FREED {
        die("FENCE-REPORT: double free");
    }
    if rec != layout.size() as u32 {
        die("FENCE-REPORT: free with a wrong size or of an interior/unknown address");
    }
    *e = FREED;
    // release the memory and make any later access fault
    let flags = libc::MAP_PRIVATE | libc::MAP_ANONYMOUS | libc::MAP_NORESERVE | libc::MAP_FIXED;
    if libc::mmap(data as *mut libc::c_void, data_pages * PAGE, libc::PROT_NONE, flags, -1, 0) == libc::MAP_FAILED {
        die("fence: remap failed");
    }
    LIVE.fetch_sub(1, Ordering::Relaxed);
    LIVE_BYTES.fetch_sub(layout.size() as i64, Ordering::Relaxed);
}

unsafe impl GlobalAlloc for FenceAlloc {
    #[inline]
    unsafe fn alloc(&self, layout: Layout) -> *mut u8 {
        if ARMED.try_with(|a| a.get()).unwrap_or(false) {
            fenced_alloc(layout)
        } else {
            System.alloc(layout)
        }
    }
    #[inline]
    unsafe fn dealloc(&self, ptr: *mut u8, layout: Layout) {
        if in_region(ptr as usize) {
            fenced_dealloc(ptr, layout)
        } else {
            System.dealloc(ptr, layout)
        }
    }
    #[inline]
    unsafe fn alloc_zeroed(&self, layout: Layout) -> *mut u8 {
        if ARMED.try_with(|a| a.get()).unwrap_or(false) {
            let p = fenced_alloc(layout);
            std::ptr::write_bytes(p, 0, layout.size());
            p
        } else {
            System.alloc_zeroed(layout)
        }
    }
    #[inline]
    unsafe fn realloc(&self, ptr: *mut u8, layout: Layout, new_size: usize) -> *mut u8 {
        let armed = ARMED.try_with(|a| a.get()).unwrap_or(false);
        if !armed && !in_region(ptr as usize) {
            return System.realloc(ptr, layout, new_size);
        }
        let new_layout = Layout::from_size_align_unchecked(new_size, layout.align());
        let np = self.alloc(new_layout);
        if !np.is_null() {
            std::ptr::copy_nonoverlapping(ptr, np, layout.size().min(new_size));
            self.dealloc(ptr, layout);
        }
        np
    }
}

pub fn set_left_aligned(on: bool) {
    LEFT_ALIGNED.store(on, Ordering::Relaxed);
}
pub fn live() -> i64 {
    LIVE.load(Ordering::Relaxed)
}
pub fn live_bytes() -> i64 {
    LIVE_BYTES.load(Ordering::Relaxed)
}
pub fn total() -> u64 {
    TOTAL.load(Ordering::Relaxed)
}

/// run `f` with the fence switched off on this thread (harness bookkeeping inside a fenced case)
pub fn unarmed<T>(f: impl FnOnce() -> T) -> T {
    let prev = ARMED.with(|a| a.replace(false));
    struct Reset(bool);
    impl Drop for Reset {
        fn drop(&mut self) {
            ARMED.with(|a| a.set(self.0));
        }
    }
    let _r = Reset(prev);
    f()
}

/// run `f` on the current thread with fenced allocation
pub fn armed<T>(f: impl FnOnce() -> T) -> T {
    let prev = ARMED.with(|a| a.replace(true));
    struct Reset(bool);
    impl Drop for Reset {
        fn drop(&mut self) {
            ARMED.with(|a| a.set(self.0));
        }
    }
    let _r = Reset(prev);
    f()
}

pub struct FencedOutcome<T> {
    pub result: Result<T, String>,
    pub leaked_allocs: i64,
    pub leaked_bytes: i64,
    pub allocations: u64,
}

/// Run `f` armed on a fresh thread (own stack of `stack` bytes, own thread-locals, which are
/// destroyed - and their buffers freed - before the leak count is taken).
/// `f` must drop everything it got from the subject before returning; `T` must not hold heap.
pub fn on_fresh_thread<T: Send + 'static>(stack: usize, f: impl FnOnce() -> T + Send + 'static) -> FencedOutcome<T> {
    let before = live();
    let before_b = live_bytes();
    let t0 = total();
    let h = std::thread::Builder::new()
        .stack_size(stack)
        .spawn(move || crate::engine::guard(|| armed(f)))
        .expect("spawn case thread");
    let result = match h.join() {
        Ok(r) => r,
        Err(_) => Err("case thread panicked outside the guard".to_string()),
    };
    FencedOutcome { result, leaked_allocs: live() - before, leaked_bytes: live_bytes() - before_b, allocations: total() - t0 }
}
