//! C16 - values sharing a parsed arena stay valid in any clone, move and drop order.
//! Engines E2 + E5: all histories up to a depth over a sharing alphabet (operations tagged
//! with the thread that executes them), then EVERY permutation of the drops of the surviving
//! values; each (history, drop order) runs on a fresh thread under the fence allocator, so a
//! use-after-free faults at the access, a double free is reported, and a leak shows in the
//! live-allocation count after the last drop.

use serde::Deserialize;
use serde_json::json;
use sonic_rs::{Deserializer, JsonContainerTrait, JsonValueMutTrait, JsonValueTrait, PointerNode, Value};

use crate::{
    engine::{Ctx, Family, Tier},
    fence, gen,
    props::c15::{r_dumps, r_of_json, v_dumps, R},
};

pub const DOCS: &[&str] = &["{\"a\":[1,{\"b\":\"x\\ny\"}],\"c\":\"s\"}", "[[1,2],{\"a\":[true,null]},\"t\"]"];
/// documents whose root needs no payload in the arena (or only a short one)
pub const SMALL_ROOTS: &[&str] = &["\"\"", "[]", "{}", "\"x\"", "7", "null", "-0.5", "true"];

#[derive(Deserialize)]
struct Two {
    x: Value,
    y: Value,
}

#[derive(Clone, Copy, Debug, PartialEq)]
pub enum Sel {
    Root,
    A,
    A1,
    Idx1,
}

#[derive(Clone, Debug)]
pub enum Op {
    Parse(usize),
    ParseBig,
    CloneSub(usize, Sel),
    InsertCloneInto(usize, usize),
    Promote(usize),
    TakeSub(usize),
    DeserializeMany,
    DeserializeWithError,
    StreamMany,
    StreamWithError,
    StructFields,
    /// the three above in raw-number mode (numbers keep their text: one more kind of node that
    /// must live in the arena and not in the caller's input)
    DeserializeManyRaw,
    StreamManyRaw,
    StructFieldsRaw,
    /// a whole-input parse that is rejected (0: syntax error after nodes were built, 1: invalid
    /// UTF-8 found after the structural parse, 2: string closed only by the padding, 3: trailing
    /// characters): nothing is handed out, so nothing may stay allocated
    ParseRejected(usize),
    /// whole-input parse of a document with a small root
    ParseSmall(usize),
    /// the small roots as elements of a typed `Vec<Value>` / as struct fields
    SmallRootsInVec,
    SmallRootsInStruct,
    /// number roots in raw-number mode (Vec<Value> elements and stream documents)
    NumberRootsRaw,
    Drop(usize),
    CloneOnOtherThread(usize),
    DropOnOtherThread(usize),
    ReadOnOtherThread(usize),
    MutateOnOtherThread(usize),
}

const MAX_LIVE: usize = 5;

pub fn ops() -> Vec<Op> {
    use Op::*;
    let mut v = vec![Parse(0), Parse(1), DeserializeMany, DeserializeWithError, StreamMany, StreamWithError, StructFields, DeserializeManyRaw, StreamManyRaw, StructFieldsRaw, ParseRejected(0), ParseRejected(1), ParseRejected(2), ParseRejected(3), ParseSmall(0), ParseSmall(1), ParseSmall(2), ParseSmall(3), ParseSmall(4), SmallRootsInVec, SmallRootsInStruct, NumberRootsRaw];
    for i in 0..2 {
        v.push(CloneSub(i, Sel::Root));
        v.push(CloneSub(i, Sel::A));
        v.push(CloneSub(i, Sel::A1));
        v.push(CloneSub(i, Sel::Idx1));
        v.push(Promote(i));
        v.push(TakeSub(i));
        v.push(Drop(i));
        v.push(CloneOnOtherThread(i));
        v.push(DropOnOtherThread(i));
        v.push(MutateOnOtherThread(i));
    }
    v.push(CloneSub(2, Sel::Root));
    v.push(Drop(2));
    v.push(InsertCloneInto(0, 1));
    v.push(InsertCloneInto(1, 0));
    v.push(InsertCloneInto(2, 0));
    v.push(ReadOnOtherThread(0));
    v
}

fn sel_impl<'a>(v: &'a Value, s: Sel) -> Option<&'a Value> {
    match s {
        Sel::Root => Some(v),
        Sel::A => v.get("a"),
        Sel::A1 => v.pointer([PointerNode::Key("a".into()), PointerNode::Index(1)].iter()),
        Sel::Idx1 => v.get(1usize),
    }
}
fn sel_model<'a>(m: &'a R, s: Sel) -> Option<&'a R> {
    match (s, m) {
        (Sel::Root, _) => Some(m),
        (Sel::A, R::Obj(o)) => o.get("a"),
        (Sel::A1, R::Obj(o)) => match o.get("a") {
            Some(R::Arr(a)) => a.get(1),
            _ => None,
        },
        (Sel::Idx1, R::Arr(a)) => a.get(1),
        _ => None,
    }
}

fn model_of(doc: &str) -> R {
    r_of_json(&serde_json::from_str::<serde_json::Value>(doc).unwrap())
}

/// executes `f` on another OS thread (armed like the caller) and waits for it: lock step
fn on_other_thread<T: Send>(f: impl FnOnce() -> T + Send) -> T {
    std::thread::scope(|s| s.spawn(|| fence::armed(f)).join().expect("helper thread"))
}

fn check(live: &[Value], model: &[R]) -> Result<(), String> {
    for (k, (v, m)) in live.iter().zip(model.iter()).enumerate() {
        let g = v_dumps(v);
        let w = fence::unarmed(|| r_dumps(m));
        if g != w {
            return fence::unarmed(|| Err(format!("live value {k} reads {g}, expected {w}")));
        }
    }
    Ok(())
}

pub fn apply(op: &Op, live: &mut Vec<Value>, model: &mut Vec<R>) -> Result<(), String> {
    let full = live.len() >= MAX_LIVE;
    match op {
        Op::Parse(d) => {
            if !full {
                live.push(sonic_rs::from_str(DOCS[*d]).map_err(|e| e.to_string())?);
                model.push(fence::unarmed(|| model_of(DOCS[*d])));
            }
        }
        Op::ParseBig => {
            if !full {
                // > 3 MiB of node budget: takes the heap (non thread-local) node buffer
                let n = 200_000;
                let mut s = String::with_capacity(2 * n + 64);
                s.push('[');
                for _ in 0..n {
                    s.push_str("1,");
                }
                s.push_str("{\"a\":[7,{\"b\":8}]}]");
                let v: Value = sonic_rs::from_str(&s).map_err(|e| e.to_string())?;
                // only its last element is tracked
                let c = v.get(n).ok_or("big document: last element missing")?.clone();
                drop(v);
                live.push(c);
                model.push(fence::unarmed(|| model_of("{\"a\":[7,{\"b\":8}]}")));
            }
        }
        Op::CloneSub(i, s) => {
            if *i < live.len() && !full {
                let c = sel_impl(&live[*i], *s).map(|x| x.clone());
                let m = fence::unarmed(|| sel_model(&model[*i], *s).cloned());
                match (c, m) {
                    (Some(c), Some(m)) => {
                        live.push(c);
                        model.push(m);
                    }
                    (None, None) => {}
                    _ => return Err("sub-value presence differs from the model".into()),
                }
            }
        }
        Op::InsertCloneInto(i, j) => {
            if *i < live.len() && *j < live.len() && i != j {
                let c = live[*i].clone();
                let mc = fence::unarmed(|| model[*i].clone());
                if let Some(a) = live[*j].as_array_mut() {
                    a.push(c);
                    if let R::Arr(ma) = &mut model[*j] {
                        fence::unarmed(|| ma.push(mc));
                    } else {
                        return Err("as_array_mut Some but model is not an array".into());
                    }
                } else if let Some(o) = live[*j].as_object_mut() {
                    o.insert("x", c);
                    if let R::Obj(mo) = &mut model[*j] {
                        fence::unarmed(|| mo.insert("x".to_string(), mc));
                    } else {
                        return Err("as_object_mut Some but model is not an object".into());
                    }
                }
            }
        }
        Op::Promote(i) => {
            if *i < live.len() {
                let _ = live[*i].as_array_mut().map(|a| a.len());
                let _ = live[*i].as_object_mut().map(|a| a.len());
            }
        }
        Op::TakeSub(i) => {
            if *i < live.len() {
                let t = live[*i].get_mut("a").map(|x| x.take());
                let m = fence::unarmed(|| match &mut model[*i] {
                    R::Obj(o) => o.get_mut("a").map(|x| std::mem::replace(x, R::Null)),
                    _ => None,
                });
                match (t, m) {
                    (Some(t), Some(m)) => {
                        if !full {
                            live.push(t);
                            model.push(m);
                        }
                    }
                    (None, None) => {}
                    _ => return Err("get_mut(\"a\") presence differs from the model".into()),
                }
            }
        }
        Op::DeserializeMany => {
            if live.len() + 2 <= MAX_LIVE {
                let text = format!("{} {} \"tail\"", DOCS[0], DOCS[1]);
                let mut de = Deserializer::from_str(&text);
                let a: Value = de.deserialize().map_err(|e| e.to_string())?;
                let b: Value = de.deserialize().map_err(|e| e.to_string())?;
                let c: Value = de.deserialize().map_err(|e| e.to_string())?;
                // the deserializer (and the input text) go away before the values
                drop(de);
                drop(text);
                if c.as_str() != Some("tail") {
                    return Err("third value of the deserializer is wrong".into());
                }
                drop(c);
                live.push(a);
                live.push(b);
                model.push(fence::unarmed(|| model_of(DOCS[0])));
                model.push(fence::unarmed(|| model_of(DOCS[1])));
            }
        }
        Op::DeserializeWithError => {
            if live.len() + 2 <= MAX_LIVE {
                // a later document of the same deserializer is rejected while earlier values live on,
                // and the deserializer is used again afterwards
                let text = format!("{} {} 1e999 [3,[4]] {{\"k\": tru", DOCS[0], DOCS[1]);
                let mut de = Deserializer::from_str(&text);
                let a: Value = de.deserialize().map_err(|e| e.to_string())?;
                let b: Value = de.deserialize().map_err(|e| e.to_string())?;
                if de.deserialize::<Value>().is_ok() {
                    return Err("1e999 accepted".into());
                }
                let c = de.deserialize::<Value>();
                let d = de.deserialize::<Value>();
                let e2 = de.deserialize::<Value>();
                drop((c, d, e2));
                drop(de);
                drop(text);
                live.push(a);
                live.push(b);
                model.push(fence::unarmed(|| model_of(DOCS[0])));
                model.push(fence::unarmed(|| model_of(DOCS[1])));
            }
        }
        Op::StreamWithError => {
            if live.len() + 2 <= MAX_LIVE {
                let text = format!("0 {} {} [1,", DOCS[1], DOCS[0]);
                let mut st = Deserializer::from_str(&text).into_stream::<Value>();
                let _ = st.next();
                let a = st.next().ok_or("stream ended")?.map_err(|e| e.to_string())?;
                let b = st.next().ok_or("stream ended")?.map_err(|e| e.to_string())?;
                match st.next() {
                    Some(Err(_)) => {}
                    _ => return Err("truncated document accepted by the stream".into()),
                }
                let _ = st.next();
                drop(st);
                drop(text);
                live.push(a);
                live.push(b);
                model.push(fence::unarmed(|| model_of(DOCS[1])));
                model.push(fence::unarmed(|| model_of(DOCS[0])));
            }
        }
        Op::StreamMany => {
            if live.len() + 2 <= MAX_LIVE {
                let text = format!("7 {}\n{}", DOCS[1], DOCS[0]);
                let mut st = Deserializer::from_str(&text).into_stream::<Value>();
                let first = st.next().ok_or("stream ended")?.map_err(|e| e.to_string())?;
                let a = st.next().ok_or("stream ended")?.map_err(|e| e.to_string())?;
                let b = st.next().ok_or("stream ended")?.map_err(|e| e.to_string())?;
                drop(first);
                drop(st);
                drop(text);
                live.push(b);
                live.push(a);
                model.push(fence::unarmed(|| model_of(DOCS[0])));
                model.push(fence::unarmed(|| model_of(DOCS[1])));
            }
        }
        Op::StructFields => {
            if live.len() + 2 <= MAX_LIVE {
                let text = format!("{{\"x\":{},\"y\":{}}}", DOCS[0], DOCS[1]);
                let t: Two = sonic_rs::from_str(&text).map_err(|e| e.to_string())?;
                drop(text);
                let Two { x, y } = t;
                live.push(y);
                live.push(x);
                model.push(fence::unarmed(|| model_of(DOCS[1])));
                model.push(fence::unarmed(|| model_of(DOCS[0])));
            }
        }
        Op::ParseSmall(k) => {
            if !full {
                let text = SMALL_ROOTS[*k].to_string();
                let v: Value = sonic_rs::from_str(&text).map_err(|e| e.to_string())?;
                drop(text);
                live.push(v);
                model.push(fence::unarmed(|| model_of(SMALL_ROOTS[*k])));
            }
        }
        Op::SmallRootsInVec => {
            if live.len() + 3 <= MAX_LIVE {
                let text = format!("[{},{},{},{}]", SMALL_ROOTS[0], SMALL_ROOTS[3], SMALL_ROOTS[1], SMALL_ROOTS[4]);
                let mut vs: Vec<Value> = sonic_rs::from_str(&text).map_err(|e| e.to_string())?;
                drop(text);
                if vs.len() != 4 {
                    return Err("Vec<Value> length".into());
                }
                let d = vs.pop().unwrap();
                if d.as_u64() != Some(7) {
                    return Err("fourth element is not 7".into());
                }
                drop(d);
                for (k, v) in [0usize, 3, 1].into_iter().zip(vs.into_iter()) {
                    live.push(v);
                    model.push(fence::unarmed(|| model_of(SMALL_ROOTS[k])));
                }
            }
        }
        Op::NumberRootsRaw => {
            if live.len() + 3 <= MAX_LIVE {
                let text = "[7,-0.5,12.50]".to_string();
                let mut de = Deserializer::from_str(&text).use_rawnumber();
                let vs: Vec<Value> = de.deserialize().map_err(|e| e.to_string())?;
                drop(de);
                let text2 = "1 -0.5 7 99".to_string();
                let mut st = Deserializer::from_str(&text2).use_rawnumber().into_stream::<Value>();
                let s1 = st.next().ok_or("stream ended")?.map_err(|e| e.to_string())?;
                let s2 = st.next().ok_or("stream ended")?.map_err(|e| e.to_string())?;
                let s3 = st.next().ok_or("stream ended")?.map_err(|e| e.to_string())?;
                let _ = st.next();
                drop(st);
                drop(text);
                drop(text2);
                let show = |v: &Value| v.as_raw_number().map(|r| r.as_str().to_string()).unwrap_or_else(|| format!("not raw: {v}"));
                let got = [show(&vs[0]), show(&vs[1]), show(&vs[2]), show(&s1), show(&s2), show(&s3)];
                if got != ["7", "-0.5", "12.50", "1", "-0.5", "7"] {
                    return Err(format!("raw number roots read {:?}", got));
                }
                drop((s1, s3));
                let mut it = vs.into_iter();
                live.push(it.next().unwrap());
                live.push(s2);
                live.push(it.next().unwrap());
                drop(it);
                model.push(fence::unarmed(|| model_of("7")));
                model.push(fence::unarmed(|| model_of("-0.5")));
                model.push(fence::unarmed(|| model_of("-0.5")));
            }
        }
        Op::SmallRootsInStruct => {
            if live.len() + 2 <= MAX_LIVE {
                let text = format!("{{\"x\":{},\"y\":{}}}", SMALL_ROOTS[0], SMALL_ROOTS[2]);
                let t: Two = sonic_rs::from_str(&text).map_err(|e| e.to_string())?;
                drop(text);
                let Two { x, y } = t;
                live.push(y);
                live.push(x);
                model.push(fence::unarmed(|| model_of(SMALL_ROOTS[2])));
                model.push(fence::unarmed(|| model_of(SMALL_ROOTS[0])));
            }
        }
        Op::ParseRejected(k) => {
            let texts: [&[u8]; 4] = [b"[1,{\"a\":[2,\"s\\n\"", b"[\"ok\",\"\xff\",{\"a\":[1.5]}]", b"\"abc\\", b"[1,{\"a\":\"x\\ty\"}] x"];
            // in a heap buffer of its own, freed right after the call
            let text = texts[*k].to_vec();
            let r1 = sonic_rs::from_slice::<Value>(&text).is_ok();
            let r2 = {
                let mut de = Deserializer::from_slice(&text);
                let a = de.deserialize::<Value>();
                let b = de.deserialize::<Value>();
                a.is_ok() && *k != 3 || (b.is_ok() && *k != 3 && false)
            };
            let r3 = sonic_rs::from_slice::<Two>(&text).is_ok();
            let r4 = Deserializer::from_slice(&text).into_stream::<Value>().filter(|x| x.is_ok()).count();
            drop(text);
            if r1 || r2 || r3 {
                return Err(format!("rejected document {k} was accepted ({r1} {r2} {r3} {r4})"));
            }
        }
        Op::DeserializeManyRaw => {
            if live.len() + 2 <= MAX_LIVE {
                let text = format!("{} {} 12.50", DOCS[0], DOCS[1]);
                let mut de = Deserializer::from_str(&text).use_rawnumber();
                let a: Value = de.deserialize().map_err(|e| e.to_string())?;
                let b: Value = de.deserialize().map_err(|e| e.to_string())?;
                let c: Value = de.deserialize().map_err(|e| e.to_string())?;
                drop(de);
                drop(text);
                if c.as_raw_number().map(|n| n.as_str().to_string()).as_deref() != Some("12.50") {
                    return Err("third (raw number) value of the deserializer is wrong".into());
                }
                drop(c);
                live.push(a);
                live.push(b);
                model.push(fence::unarmed(|| model_of(DOCS[0])));
                model.push(fence::unarmed(|| model_of(DOCS[1])));
            }
        }
        Op::StreamManyRaw => {
            if live.len() + 2 <= MAX_LIVE {
                let text = format!("7 {}\n{}", DOCS[1], DOCS[0]);
                let mut st = Deserializer::from_str(&text).use_rawnumber().into_stream::<Value>();
                let first = st.next().ok_or("stream ended")?.map_err(|e| e.to_string())?;
                let a = st.next().ok_or("stream ended")?.map_err(|e| e.to_string())?;
                let b = st.next().ok_or("stream ended")?.map_err(|e| e.to_string())?;
                drop(st);
                drop(text);
                if first.as_raw_number().map(|n| n.as_str().to_string()).as_deref() != Some("7") {
                    return Err("first (raw number) value of the stream is wrong".into());
                }
                drop(first);
                live.push(b);
                live.push(a);
                model.push(fence::unarmed(|| model_of(DOCS[0])));
                model.push(fence::unarmed(|| model_of(DOCS[1])));
            }
        }
        Op::StructFieldsRaw => {
            if live.len() + 2 <= MAX_LIVE {
                let text = format!("{{\"x\":{},\"y\":{}}}", DOCS[0], DOCS[1]);
                let mut de = Deserializer::from_str(&text).use_rawnumber();
                let t: Two = de.deserialize().map_err(|e| e.to_string())?;
                drop(de);
                drop(text);
                let Two { x, y } = t;
                live.push(y);
                live.push(x);
                model.push(fence::unarmed(|| model_of(DOCS[1])));
                model.push(fence::unarmed(|| model_of(DOCS[0])));
            }
        }
        Op::Drop(i) => {
            if *i < live.len() {
                drop(live.remove(*i));
                fence::unarmed(|| model.remove(*i));
            }
        }
        Op::CloneOnOtherThread(i) => {
            if *i < live.len() && !full {
                let v = &live[*i];
                let c = on_other_thread(|| v.clone());
                live.push(c);
                let m = fence::unarmed(|| model[*i].clone());
                model.push(m);
            }
        }
        Op::DropOnOtherThread(i) => {
            if *i < live.len() {
                let v = live.remove(*i);
                on_other_thread(move || drop(v));
                fence::unarmed(|| model.remove(*i));
            }
        }
        Op::ReadOnOtherThread(i) => {
            if *i < live.len() {
                let v = &live[*i];
                let d = on_other_thread(|| v_dumps(v));
                let w = fence::unarmed(|| r_dumps(&model[*i]));
                if d != w {
                    return Err("value read on another thread differs".into());
                }
            }
        }
        Op::MutateOnOtherThread(i) => {
            if *i < live.len() {
                let mut v = std::mem::take(&mut live[*i]);
                let v = on_other_thread(move || {
                    if let Some(a) = v.as_array_mut() {
                        a.push(Value::from("pushed"));
                    } else if let Some(o) = v.as_object_mut() {
                        o.insert("pushed", Value::from(true));
                    }
                    v
                });
                live[*i] = v;
                fence::unarmed(|| match &mut model[*i] {
                    R::Arr(a) => a.push(R::Str("pushed".into())),
                    R::Obj(o) => {
                        o.insert("pushed".into(), R::Bool(true));
                    }
                    _ => {}
                });
            }
        }
    }
    check(live, model)
}

/// n-th permutation of 0..n (lexicographic index)
pub fn nth_perm(n: usize, mut idx: u64) -> Vec<usize> {
    let mut items: Vec<usize> = (0..n).collect();
    let mut f: Vec<u64> = vec![1; n + 1];
    for i in 1..=n {
        f[i] = f[i - 1] * i as u64;
    }
    let mut out = vec![];
    for i in (0..n).rev() {
        let k = (idx / f[i]) as usize;
        idx %= f[i];
        out.push(items.remove(k));
    }
    out
}
pub fn factorial(n: usize) -> u64 {
    (1..=n as u64).product::<u64>().max(1)
}

/// run history then drop the survivors in the `perm_idx`-th order; returns number of survivors
fn run_once(hist: &[Op], perm_idx: u64) -> Result<usize, String> {
    let mut live: Vec<Value> = vec![];
    let mut model: Vec<R> = fence::unarmed(Vec::new);
    for (k, op) in hist.iter().enumerate() {
        apply(op, &mut live, &mut model).map_err(|e| fence::unarmed(|| format!("step {k} ({:?}): {e}", op)))?;
    }
    let n = live.len();
    let order = fence::unarmed(|| nth_perm(n, perm_idx % factorial(n)));
    // drop in that order; every survivor is read after every drop
    let mut slots: Vec<Option<Value>> = live.into_iter().map(Some).collect();
    for (step, &i) in order.iter().enumerate() {
        let v = slots[i].take();
        if step % 2 == 1 {
            on_other_thread(move || drop(v));
        } else {
            drop(v);
        }
        for (k, s) in slots.iter().enumerate() {
            if let Some(v) = s {
                let g = v_dumps(v);
                let w = fence::unarmed(|| r_dumps(&model[k]));
                if g != w {
                    return fence::unarmed(|| Err(format!("after dropping {:?}: survivor {k} reads {g}, expected {w}", &order[..=step])));
                }
            }
        }
    }
    fence::unarmed(|| drop(model));
    Ok(n)
}

pub fn run_history(ctx: &mut Ctx, seq: &[u32], all: &[Op], fenced: bool, all_perms: bool) {
    let hist: Vec<Op> = seq.iter().map(|i| all[*i as usize].clone()).collect();
    let describe = |p: u64| json!({"history": hist.iter().map(|o| format!("{:?}", o)).collect::<Vec<_>>(), "drop_order_index": p});
    // first run tells how many survivors there are
    let mut perm = 0u64;
    let mut nperm = 1u64;
    let mut first = true;
    while perm < nperm {
        let h2 = hist.clone();
        let p = perm;
        let (res, leaked) = if fenced {
            let o = fence::on_fresh_thread(4 << 20, move || {
                let r = run_once(&h2, p);
                fence::unarmed(|| r)
            });
            (o.result, o.leaked_allocs)
        } else {
            (crate::engine::guard(|| run_once(&h2, p)), 0)
        };
        ctx.state();
        ctx.calls(hist.len() as u64 + 1);
        match res {
            Ok(Ok(n)) => {
                if first {
                    nperm = if all_perms || n <= 3 { factorial(n) } else { 8.min(factorial(n)) };
                    first = false;
                    ctx.outcome(&format!("survivors={n}"));
                    if n >= 2 {
                        ctx.nontrivial();
                    }
                }
                if leaked != 0 {
                    ctx.outcome("VIOL:leak");
                    ctx.violation("leak-after-last-drop", json!({"case": describe(p), "live_allocations_left": leaked}));
                }
            }
            Ok(Err(m)) => {
                ctx.outcome("VIOL");
                ctx.violation("sharer-corrupted", json!({"case": describe(p), "mismatch": m}));
                break;
            }
            Err(pn) => {
                ctx.violation("panic/history", json!({"case": describe(p), "panic": pn}));
                break;
            }
        }
        // sample a spread of the permutations when not all are run: 0, last, and a stride
        perm += 1;
    }
    ctx.sample(|| describe(0));
}

pub fn families(tier: Tier, variant: &str) -> Vec<Family> {
    let q = tier == Tier::Quick;
    let _ = variant;
    let all = ops();
    let k = all.len() as u64;
    let mut v = vec![];
    {
        let depth = 2;
        let a2 = all.clone();
        v.push(Family::new(&format!("fenced/histories<=depth{} x all drop orders ({} operations)", depth, k), gen::seq_count(k, depth), move |idx, ctx| {
            let mut seq = vec![];
            gen::nth_seq(k, depth, idx, &mut seq);
            crate::props::c01::warm_up();
            run_history(ctx, &seq, &a2, true, !q);
        }));
    }
    if !q {
        // depth 3 over a medium alphabet: every kind of source, the sharing operations and the
        // drops (the full alphabet at depth 3 is 100 000 fenced histories x drop orders)
        use Op::*;
        let medium: Vec<Op> = vec![
            Parse(0),
            Parse(1),
            DeserializeMany,
            StreamMany,
            StructFields,
            DeserializeManyRaw,
            StreamWithError,
            ParseSmall(0),
            ParseSmall(1),
            SmallRootsInVec,
            ParseRejected(1),
            CloneSub(0, Sel::A),
            CloneSub(1, Sel::A1),
            InsertCloneInto(0, 1),
            TakeSub(0),
            Promote(0),
            Drop(0),
            Drop(1),
            DropOnOtherThread(0),
            MutateOnOtherThread(0),
            CloneOnOtherThread(0),
        ];
        let km = medium.len() as u64;
        let m2 = medium.clone();
        v.push(Family::new(&format!("fenced/medium-alphabet({} ops) histories<=depth3 x all drop orders", km), gen::seq_count(km, 3), move |idx, ctx| {
            let mut seq = vec![];
            gen::nth_seq(km, 3, idx, &mut seq);
            crate::props::c01::warm_up();
            run_history(ctx, &seq, &medium, true, true);
        }));
        v.push(Family::new(&format!("plain/medium-alphabet({} ops) histories<=depth4 x all drop orders", km), gen::seq_count(km, 4), move |idx, ctx| {
            let mut seq = vec![];
            gen::nth_seq(km, 4, idx, &mut seq);
            run_history(ctx, &seq, &m2, false, true);
        }));
    }
    {
        // deeper over a core alphabet, fenced
        use Op::*;
        let core: Vec<Op> = vec![
            Parse(0),
            DeserializeMany,
            DeserializeWithError,
            CloneSub(0, Sel::A),
            CloneSub(1, Sel::A1),
            CloneSub(0, Sel::Root),
            InsertCloneInto(0, 1),
            InsertCloneInto(2, 0),
            Promote(0),
            TakeSub(0),
            Drop(0),
            DropOnOtherThread(1),
            MutateOnOtherThread(0),
        ];
        let kc = core.len() as u64;
        let depth = if q { 3 } else { 4 };
        v.push(Family::new(&format!("fenced/core-histories<=depth{} x all drop orders", depth), gen::seq_count(kc, depth), move |idx, ctx| {
            let mut seq = vec![];
            gen::nth_seq(kc, depth, idx, &mut seq);
            crate::props::c01::warm_up();
            run_history(ctx, &seq, &core, true, true);
        }));
    }
    {
        // documents whose node budget (length / 2 + 2) lies around the switch from the thread-local
        // to the heap node buffer (196608 nodes): parsed (whole input, and as element of a typed
        // Vec), dropped, nothing may stay allocated
        let lens: Vec<usize> = if q { (393205..=393220).collect() } else { (393150..=393300).collect() };
        v.push(Family::of_vec("fenced/documents-at-the-node-buffer-threshold", lens, |len, ctx| {
            crate::props::c01::warm_up();
            let len = *len;
            let o = fence::on_fresh_thread(16 << 20, move || -> Result<(), String> {
                let mut s = String::with_capacity(len + 8);
                s.push('[');
                while s.len() + 4 <= len {
                    s.push_str("1,");
                }
                s.push('1');
                while s.len() + 1 < len {
                    s.push(' ');
                }
                s.push(']');
                if s.len() != len {
                    return Err(format!("harness: built {} bytes instead of {len}", s.len()));
                }
                let v: Value = sonic_rs::from_str(&s).map_err(|e| e.to_string())?;
                let n = v.as_array().map(|a| a.len()).unwrap_or(0);
                drop(v);
                let wrapped = format!("[{s}]");
                let vs: Vec<Value> = sonic_rs::from_str(&wrapped).map_err(|e| e.to_string())?;
                drop(wrapped);
                let n2 = vs[0].as_array().map(|a| a.len()).unwrap_or(0);
                drop(vs);
                drop(s);
                if n == 0 || n != n2 {
                    return Err(format!("element counts {n} / {n2}"));
                }
                Ok(())
            });
            ctx.state();
            ctx.calls(2);
            ctx.nontrivial();
            match o.result {
                Ok(Ok(())) if o.leaked_allocs == 0 => ctx.outcome("threshold:released"),
                Ok(Ok(())) => {
                    ctx.outcome("VIOL:leak");
                    ctx.violation("leak-after-last-drop", json!({"case": {"document_bytes": len}, "live_allocations_left": o.leaked_allocs}));
                }
                Ok(Err(m)) => ctx.violation("threshold-document", json!({"document_bytes": len, "mismatch": m})),
                Err(p) => ctx.violation("panic/threshold-document", json!({"document_bytes": len, "panic": p})),
            }
        }));
    }
    {
        // the heap node-buffer path (document > 3 MiB of node budget), fenced
        use Op::*;
        let big: Vec<Vec<Op>> = vec![
            vec![ParseBig],
            vec![ParseBig, CloneSub(0, Sel::A), Drop(0)],
            vec![ParseBig, Parse(0), InsertCloneInto(0, 1), Drop(0)],
            vec![Parse(0), ParseBig, CloneSub(1, Sel::A1), DropOnOtherThread(1)],
        ];
        v.push(Family::of_vec("fenced/large-document (heap node buffer)", big, |h, ctx| {
            crate::props::c01::warm_up();
            let all: Vec<Op> = h.clone();
            let seq: Vec<u32> = (0..all.len() as u32).collect();
            run_history(ctx, &seq, &all, true, true);
        }));
    }
    {
        // unfenced, deeper: contents of all survivors in all drop orders
        let depth = 3;
        let a3 = all.clone();
        v.push(Family::new(&format!("plain/histories<=depth{} x drop orders", depth), gen::seq_count(k, depth), move |idx, ctx| {
            let mut seq = vec![];
            gen::nth_seq(k, depth, idx, &mut seq);
            run_history(ctx, &seq, &a3, false, !q);
        }));
    }
    v
}
