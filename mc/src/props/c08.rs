//! C08 - numbers are written so that they read back bit-identically; raw numbers are verbatim.

use serde_json::json;
use sonic_rs::{JsonNumberTrait, JsonValueTrait, Number, RawNumber, Value};

use crate::{
    engine::{guard, Ctx, Family, Tier},
    gen, refjson,
};

fn viol(ctx: &mut Ctx, class: &str, what: String, msg: String) {
    ctx.outcome("VIOL");
    ctx.violation(class, json!({"value": what, "mismatch": msg}));
}

fn is_json_number(s: &str) -> bool {
    refjson::number_shape(s.as_bytes()).is_some()
}

pub fn check_f32(ctx: &mut Ctx, bits: u32) {
    let x = f32::from_bits(bits);
    if !x.is_finite() {
        return;
    }
    ctx.state();
    ctx.calls(2);
    let r = guard(|| -> Result<(), String> {
        let s = sonic_rs::to_string(&x).map_err(|e| e.to_string())?;
        if !is_json_number(&s) {
            return Err(format!("{:?} is not a JSON number", s));
        }
        let y: f32 = sonic_rs::from_str(&s).map_err(|e| format!("{:?} rejected: {e}", s))?;
        if y.to_bits() != bits {
            return Err(format!("{:?} reads back as bits {:08x}", s, y.to_bits()));
        }
        Ok(())
    });
    match r {
        Ok(Ok(())) => ctx.outcome("f32:roundtrip"),
        Ok(Err(m)) => viol(ctx, "roundtrip/f32", format!("f32 bits {:08x} ({:e})", bits, x), m),
        Err(p) => viol(ctx, "panic/f32", format!("f32 bits {:08x}", bits), p),
    }
}

pub fn check_f64(ctx: &mut Ctx, bits: u64) {
    let x = f64::from_bits(bits);
    if !x.is_finite() {
        return;
    }
    ctx.state();
    ctx.nontrivial();
    ctx.calls(5);
    let r = guard(|| -> Result<(), String> {
        let s = sonic_rs::to_string(&x).map_err(|e| e.to_string())?;
        if !is_json_number(&s) {
            return Err(format!("{:?} is not a JSON number", s));
        }
        let y: f64 = sonic_rs::from_str(&s).map_err(|e| format!("{:?} rejected: {e}", s))?;
        if y.to_bits() != bits {
            return Err(format!("{:?} reads back as bits {:016x}", s, y.to_bits()));
        }
        // through the DOM
        let v: Value = sonic_rs::from_str(&s).map_err(|e| format!("{:?} rejected as Value: {e}", s))?;
        if v.as_f64().map(|f| f.to_bits()) != Some(bits) || !(v.is_f64() || x.fract() == 0.0) {
            return Err(format!("DOM of {:?}: as_f64 = {:?}", s, v.as_f64().map(|f| f.to_bits())));
        }
        let s2 = sonic_rs::to_string(&v).map_err(|e| e.to_string())?;
        let y2: f64 = sonic_rs::from_str(&s2).map_err(|e| e.to_string())?;
        if y2.to_bits() != bits {
            return Err(format!("DOM serialization {:?} reads back as {:016x}", s2, y2.to_bits()));
        }
        // to_value / from_value
        let tv = sonic_rs::to_value(&x).map_err(|e| e.to_string())?;
        if tv.as_f64().map(|f| f.to_bits()) != Some(bits) {
            return Err(format!("to_value: as_f64 = {:?}", tv.as_f64().map(|f| f.to_bits())));
        }
        let back: f64 = sonic_rs::from_value(&tv).map_err(|e| e.to_string())?;
        if back.to_bits() != bits {
            return Err(format!("from_value(to_value) = {:016x}", back.to_bits()));
        }
        Ok(())
    });
    match r {
        Ok(Ok(())) => ctx.outcome("f64:roundtrip"),
        Ok(Err(m)) => viol(ctx, "roundtrip/f64", format!("f64 bits {:016x} ({:e})", bits, x), m),
        Err(p) => viol(ctx, "panic/f64", format!("f64 bits {:016x}", bits), p),
    }
}

macro_rules! check_int {
    ($ctx:expr, $t:ty, $x:expr, $dom:expr) => {{
        let x: $t = $x;
        $ctx.state();
        $ctx.calls(2);
        let r = guard(|| -> Result<(), String> {
            let s = sonic_rs::to_string(&x).map_err(|e| e.to_string())?;
            if s != x.to_string() || !is_json_number(&s) {
                return Err(format!("written as {:?}", s));
            }
            let y: $t = sonic_rs::from_str(&s).map_err(|e| format!("{:?} rejected: {e}", s))?;
            if y != x {
                return Err(format!("{:?} reads back as {}", s, y));
            }
            if $dom {
                let v: Value = sonic_rs::from_str(&s).map_err(|e| e.to_string())?;
                let s2 = sonic_rs::to_string(&v).map_err(|e| e.to_string())?;
                if s2 != s {
                    return Err(format!("DOM writes {:?}", s2));
                }
                let y: $t = sonic_rs::from_value(&v).map_err(|e| format!("from_value: {e}"))?;
                if y != x {
                    return Err(format!("from_value gives {}", y));
                }
                let tv = sonic_rs::to_value(&x).map_err(|e| e.to_string())?;
                if tv != v {
                    return Err("to_value != parsed DOM".to_string());
                }
            }
            Ok(())
        });
        match r {
            Ok(Ok(())) => $ctx.outcome(concat!("int:roundtrip:", stringify!($t))),
            Ok(Err(m)) => viol($ctx, concat!("roundtrip/", stringify!($t)), format!("{}", x), m),
            Err(p) => viol($ctx, concat!("panic/", stringify!($t)), format!("{}", x), p),
        }
    }};
}

fn wide_ints() -> Vec<i128> {
    let mut v: Vec<i128> = vec![0, 1, -1];
    for k in 0..127u32 {
        let p = 1i128 << k;
        for d in [-1i128, 0, 1] {
            v.push(p + d);
            v.push(-(p + d));
        }
    }
    let mut t = 1i128;
    for _ in 0..38 {
        for d in [-1i128, 0, 1] {
            v.push(t + d);
            v.push(-(t + d));
        }
        t *= 10;
    }
    v.push(i128::MAX);
    v.push(i128::MIN);
    v.sort();
    v.dedup();
    v
}

pub fn check_wide(ctx: &mut Ctx, x: i128) {
    if let Ok(y) = u32::try_from(x) {
        check_int!(ctx, u32, y, true);
    }
    if let Ok(y) = i32::try_from(x) {
        check_int!(ctx, i32, y, true);
    }
    if let Ok(y) = u64::try_from(x) {
        check_int!(ctx, u64, y, true);
        check_int!(ctx, usize, y as usize, true);
    }
    if let Ok(y) = i64::try_from(x) {
        check_int!(ctx, i64, y, true);
        check_int!(ctx, isize, y as isize, true);
    }
    check_int!(ctx, i128, x, false);
    if x >= 0 {
        check_int!(ctx, u128, x as u128, false);
        check_int!(ctx, u128, (x as u128).wrapping_mul(2).wrapping_add(1), false);
        check_int!(ctx, u128, u128::MAX - x as u128, false);
    }
}

/// raw numbers: bare and quoted literal
pub fn check_raw(ctx: &mut Ctx, lit: &str) {
    let orig = lit;
    for quoted in [false, true] {
        let text = if quoted { format!("\"{orig}\"") } else { orig.to_string() };
        // bare: whitespace around the number is not part of it; quoted: nothing but the number
        let lit = if quoted { orig } else { orig.trim_matches(' ') };
        let shape = refjson::number_shape(lit.as_bytes());
        ctx.state();
        ctx.call();
        let r = guard(|| sonic_rs::from_str::<RawNumber>(&text));
        match (shape, r) {
            (_, Err(p)) => viol(ctx, "panic/RawNumber", text.clone(), p),
            (None, Ok(Ok(n))) => viol(ctx, "rawnumber-accepts-invalid", text.clone(), format!("holds {:?}", n.as_str())),
            (None, Ok(Err(_))) => {
                ctx.outcome("raw:rejected");
                if !quoted {
                    // the raw-number DOM and a raw-number struct field must reject it as well
                    let doc = format!("{{\"n\":{lit}}}");
                    let r = guard(|| {
                        let mut de = sonic_rs::Deserializer::from_str(&doc).use_rawnumber();
                        let a = de.deserialize::<Value>().is_ok();
                        let b = sonic_rs::from_str::<std::collections::BTreeMap<String, RawNumber>>(&doc).is_ok();
                        let c = sonic_rs::from_str::<Vec<RawNumber>>(&format!("[{lit},1]")).is_ok();
                        (a, b, c)
                    });
                    ctx.state();
                    ctx.calls(3);
                    match r {
                        Ok((false, false, false)) => ctx.outcome("raw:rejected-in-context"),
                        Ok(x) => viol(ctx, "rawnumber-accepts-invalid-in-context", doc.clone(), format!("raw-number DOM / map of RawNumber / Vec<RawNumber> accepted: {:?}", x)),
                        Err(p) => viol(ctx, "panic/RawNumber-in-context", doc.clone(), p),
                    }
                }
            }
            (Some(_), Ok(Err(e))) => viol(ctx, "rawnumber-rejects-valid", text.clone(), e.to_string()),
            (Some((is_int, neg)), Ok(Ok(n))) => {
                ctx.nontrivial();
                let r = guard(|| -> Result<(), String> {
                    if n.as_str() != lit {
                        return Err(format!("as_str() = {:?}", n.as_str()));
                    }
                    let s = sonic_rs::to_string(&n).map_err(|e| e.to_string())?;
                    if s != lit {
                        return Err(format!("serialized as {:?}", s));
                    }
                    let pretty = sonic_rs::to_string_pretty(&vec![n.clone()]).map_err(|e| e.to_string())?;
                    if pretty != format!("[\n  {lit}\n]") {
                        return Err(format!("pretty in array {:?}", pretty));
                    }
                    // accessors agree with parsing the literal as Number
                    let want = refjson::classify_number(lit, is_int, neg);
                    let num: Result<Number, _> = sonic_rs::from_str(lit);
                    if lit != "-0" {
                        let (wu, wi, wf) = match want {
                            refjson::Num::U(u) => (Some(u), i64::try_from(u).ok(), Some(u as f64)),
                            refjson::Num::I(i) => (None, Some(i), Some(i as f64)),
                            refjson::Num::F(f) => (None, None, if f.is_finite() { Some(f) } else { None }),
                        };
                        if n.as_u64() != wu || n.as_i64() != wi {
                            return Err(format!("as_u64 {:?} as_i64 {:?}, expected {:?} {:?}", n.as_u64(), n.as_i64(), wu, wi));
                        }
                        if n.as_f64().map(|f| f.to_bits()) != wf.map(|f| f.to_bits()) {
                            return Err(format!("as_f64 {:?} expected {:?}", n.as_f64(), wf));
                        }
                        if let Ok(num) = &num {
                            if num.as_u64() != n.as_u64() || num.as_i64() != n.as_i64() {
                                return Err("Number and RawNumber integer accessors disagree".into());
                            }
                        }
                    }
                    // (also for "-0", whichever of its two readings the library takes)
                    if let Ok(num) = &num {
                        if num.as_f64().map(|f| f.to_bits()) != n.as_f64().map(|f| f.to_bits()) {
                            return Err(format!("RawNumber::as_f64 = {:?} but the literal parsed as Number gives {:?}", n.as_f64(), num.as_f64()));
                        }
                    }
                    // inside a DOM with raw-number mode the literal survives
                    let doc = format!("{{\"n\":{lit}}}");
                    let mut de = sonic_rs::Deserializer::from_str(&doc).use_rawnumber();
                    let v: Value = de.deserialize().map_err(|e| {
                        if matches!(want, refjson::Num::F(f) if !f.is_finite()) { "skip".to_string() } else { format!("DOM rejected: {e}") }
                    })?;
                    let out = sonic_rs::to_string(&v).map_err(|e| e.to_string())?;
                    if out != doc {
                        return Err(format!("DOM in raw mode writes {:?}", out));
                    }
                    match v.get("n").and_then(|x| x.as_raw_number()) {
                        Some(r) if r.as_str() == lit => {}
                        other => return Err(format!("as_raw_number = {:?}", other.map(|r| r.as_str().to_string()))),
                    }
                    Ok(())
                });
                match r {
                    Ok(Ok(())) => ctx.outcome(if quoted { "raw:verbatim(quoted)" } else { "raw:verbatim" }),
                    Ok(Err(m)) if m == "skip" => ctx.outcome("raw:verbatim(non-finite, DOM not applicable)"),
                    Ok(Err(m)) => viol(ctx, "rawnumber", text.clone(), m),
                    Err(p) => viol(ctx, "panic/RawNumber", text.clone(), p),
                }
            }
        }
    }
}

pub fn f64_patterns() -> Vec<u64> {
    let mut mants: Vec<u64> = vec![0, 1, 2, 3, (1u64 << 52) - 1, (1u64 << 52) - 2, 0x5555_5555_5555_5, 0xAAAA_AAAA_AAAA_A, 0x8000_0000_0000_0, 0x7FFF_FFFF_FFFF_F, 0x1234_5678_9ABC_D, 0xFEDC_BA98_7654_3];
    for b in 0..52 {
        mants.push(1u64 << b);
    }
    let mut v = vec![];
    for e in 0..2047u64 {
        for m in &mants {
            for s in [0u64, 1] {
                v.push((s << 63) | (e << 52) | m);
            }
        }
    }
    // neighbours of powers of ten and two
    let mut p = 1e-323f64;
    for k in -323..=308i32 {
        let x: f64 = format!("1e{k}").parse().unwrap();
        let b = x.to_bits();
        for d in 0..200u64 {
            v.push(b.wrapping_add(d));
            v.push(b.wrapping_sub(d));
        }
        p = x;
    }
    let _ = p;
    // all small subnormals and the normal/subnormal boundary
    for d in 0..2000u64 {
        v.push(d);
        v.push((1u64 << 52).wrapping_sub(1000).wrapping_add(d));
        v.push((0x7FEu64 << 52 | ((1u64 << 52) - 1)).wrapping_sub(d));
    }
    // integers-as-floats around 2^53 and decimal-looking values
    for k in 0..64u32 {
        let x = (1u64 << k) as f64;
        for d in 0..5u64 {
            v.push(x.to_bits() + d);
            v.push(x.to_bits() - d);
        }
    }
    v.retain(|b| f64::from_bits(*b).is_finite());
    v.sort();
    v.dedup();
    v
}

pub fn families(tier: Tier, _variant: &str) -> Vec<Family> {
    let q = tier == Tier::Quick;
    let mut v = vec![];
    if q {
        // 2^27 values with the low 5 mantissa bits zero, 128 per case
        v.push(Family::new("f32/low-5-bits-zero", 1 << 20, |idx, ctx| {
            let base = (idx as u32) << 12;
            for k in 0..128u32 {
                check_f32(ctx, base | (k << 5));
            }
            ctx.nontrivial();
        }));
        // the values around the only f32 (of all 2^32, thorough tier) whose shortest text, read as
        // f64, lies exactly halfway between two f32
        v.push(Family::new("f32/around-double-rounding-witnesses", 2 * 129, |idx, ctx| {
            let base: u32 = if idx < 129 { 0x15ae_43fd } else { 0x95ae_43fd };
            check_f32(ctx, base - 64 + (idx % 129) as u32);
            ctx.nontrivial();
        }));
        // within 64 ulp of every power of two and ten
        let mut near: Vec<u32> = vec![];
        for e in 0..255u32 {
            let b = e << 23;
            for d in 0..64u32 {
                near.push(b.wrapping_add(d));
                near.push(b.wrapping_sub(d));
                near.push((b | 0x8000_0000).wrapping_add(d));
            }
        }
        for k in -45..=38i32 {
            let x: f32 = format!("1e{k}").parse().unwrap();
            for d in 0..64u32 {
                near.push(x.to_bits().wrapping_add(d));
                near.push(x.to_bits().wrapping_sub(d));
            }
        }
        near.sort();
        near.dedup();
        v.push(Family::of_vec("f32/near-powers", near, |b, ctx| {
            check_f32(ctx, *b);
            ctx.nontrivial();
        }));
    } else {
        // all 2^32, 4096 values per case
        v.push(Family::new("f32/all", 1 << 20, |idx, ctx| {
            let base = (idx as u32) << 12;
            for lo in 0..4096u32 {
                check_f32(ctx, base | lo);
            }
            ctx.nontrivial();
        }));
    }
    {
        // digit run of every length followed by every short N10 tail, as raw number (bare, quoted)
        let k = gen::N10.len() as u64;
        let tl: u32 = if q { 4 } else { 5 };
        let tails = gen::seq_count(k, tl);
        let max_run: u64 = if q { 70 } else { 140 };
        v.push(Family::new("rawnumber/digit-run+n10-tail", (max_run + 1) * tails, move |idx, ctx| {
            let run = idx / tails;
            let mut seq = vec![];
            gen::nth_seq(k, tl, idx % tails, &mut seq);
            let mut tail = vec![];
            gen::concat(gen::N10, &seq, &mut tail);
            let mut lit: Vec<u8> = (0..run).map(|i| b'1' + (i % 9) as u8).collect();
            lit.extend_from_slice(&tail);
            check_raw(ctx, std::str::from_utf8(&lit).unwrap());
        }));
        let edges = gen::range_edge_numbers();
        v.push(Family::of_vec("rawnumber/range-edges", edges, |s, ctx| check_raw(ctx, s)));
    }
    v.push(Family::of_vec("f64/patterns", f64_patterns(), |b, ctx| check_f64(ctx, *b)));
    v.push(Family::new("u8,i8,u16,i16/all", 65536, |idx, ctx| {
        ctx.nontrivial();
        let x = idx as u16;
        check_int!(ctx, u16, x, true);
        check_int!(ctx, i16, x as i16, true);
        if x < 256 {
            check_int!(ctx, u8, x as u8, true);
            check_int!(ctx, i8, x as u8 as i8, true);
        }
    }));
    v.push(Family::of_vec("wide-integers", wide_ints(), |x, ctx| {
        ctx.nontrivial();
        check_wide(ctx, *x)
    }));
    {
        let k = gen::N10.len() as u64;
        let l = if q { 5 } else { 7 };
        v.push(Family::new("rawnumber/n10", gen::seq_count(k, l), move |idx, ctx| {
            let mut seq = vec![];
            gen::nth_seq(k, l, idx, &mut seq);
            let mut d = vec![];
            gen::concat(gen::N10, &seq, &mut d);
            let s = String::from_utf8(d).unwrap();
            check_raw(ctx, &s);
        }));
    }
    v.push(Family::of_vec(
        "rawnumber/long",
        {
            let mut l = vec![];
            for n in [17usize, 19, 20, 21, 31, 32, 33, 63, 64, 65, 100, 400] {
                l.push("9".repeat(n));
                l.push(format!("-{}", "1".repeat(n)));
                l.push(format!("0.{}", "3".repeat(n)));
                l.push(format!("{}.{}e-{}", "7".repeat(n), "1".repeat(n), n));
                l.push(format!("{}.", "7".repeat(n)));
                l.push(format!("{}e", "7".repeat(n)));
                l.push(format!("{}.{}.", "7".repeat(n), "1".repeat(n)));
            }
            l
        },
        |s, ctx| check_raw(ctx, s),
    ));
    v
}
