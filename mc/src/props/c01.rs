//! C01 - safe entry points never panic, abort or touch invalid memory on any input.
//!
//! Every input runs the whole battery of safe entry points.  In *fenced* families the battery
//! runs on a fresh thread with the fence allocator armed (DESIGN §2.3): out-of-bounds accesses
//! and use-after-free kill the worker (attributed to the case by the engine), double frees are
//! reported by the allocator, leaks show in the live-allocation count after the thread (and
//! its thread-locals) are gone.  In *plain* families (much larger spaces) the oracle is
//! "no panic, worker survives".

use std::collections::HashMap;

use bytes::Bytes;
use faststr::FastStr;
use serde::{de::IgnoredAny, Deserialize};
use serde_json::json;
use sonic_rs::{Deserializer, LazyValue, OwnedLazyValue, PointerNode, PointerTree, Value};

use crate::{
    engine::{guard, show, Ctx, Family, Tier},
    fence, gen,
    props::{c02, lazy},
};

#[derive(Deserialize, Debug)]
#[allow(dead_code)]
struct Rec<'a> {
    a: Option<Vec<i32>>,
    #[serde(borrow)]
    b: Option<std::borrow::Cow<'a, str>>,
    c: Option<Box<Rec<'a>>>,
}

pub type Findings = Vec<(String, String)>;

fn err_fmt(e: &sonic_rs::Error) {
    let _ = format!("{} {:?} {} {} {}", e, e, e.line(), e.column(), e.offset());
    let _ = std::io::Error::from(sonic_rs::from_str::<u8>("x").unwrap_err());
}

fn ser_all<T: serde::Serialize>(v: &T) {
    let _ = sonic_rs::to_string(v);
    let _ = sonic_rs::to_string_pretty(v);
    let _ = sonic_rs::to_vec(v);
    let mut w = Vec::new();
    let _ = sonic_rs::to_writer(&mut w, v);
}

fn ps_mut(k: usize) -> Vec<PointerNode> {
    match k {
        0 => vec![PointerNode::Key(FastStr::new("a")), PointerNode::Key(FastStr::new("k"))],
        1 => vec![PointerNode::Index(0), PointerNode::Key(FastStr::new("k"))],
        _ => vec![PointerNode::Key(FastStr::new("a")), PointerNode::Index(1)],
    }
}

fn paths() -> Vec<Vec<PointerNode>> {
    vec![
        vec![],
        vec![PointerNode::Key(FastStr::new("a"))],
        vec![PointerNode::Index(0)],
        vec![PointerNode::Index(1)],
        vec![PointerNode::Key(FastStr::new("a")), PointerNode::Index(1)],
        vec![PointerNode::Key(FastStr::new("b")), PointerNode::Key(FastStr::new("a"))],
        vec![PointerNode::Index(0), PointerNode::Key(FastStr::new("a"))],
        vec![PointerNode::Index(2), PointerNode::Index(0), PointerNode::Index(0)],
    ]
}

/// every safe entry point on one input; each call isolated by catch_unwind
pub fn battery(input: &[u8], full: bool, out: &mut Findings) -> u64 {
    let mut calls = 0u64;
    let s = std::str::from_utf8(input).ok();
    let only = std::env::var("C01_ONLY").ok();
    let mut run = |name: &str, f: &mut dyn FnMut()| {
        if let Some(o) = &only {
            if !name.contains(o.as_str()) {
                return;
            }
        }
        calls += 1;
        if let Err(p) = guard(|| f()) {
            let n = name.to_string();
            fence::unarmed(|| out.push((format!("panic/{}", n), p.clone())));
        }
    };
    macro_rules! typed {
        ($t:ty, $name:expr) => {
            run(concat!("from_slice<", $name, ">"), &mut || match sonic_rs::from_slice::<$t>(input) {
                Ok(v) => {
                    let _ = format!("{:?}", v);
                }
                Err(e) => err_fmt(&e),
            });
        };
    }
    // DOM
    run("from_slice<Value> + mutable lookups of every kind", &mut || {
        use sonic_rs::{JsonContainerTrait, JsonValueMutTrait, JsonValueTrait};
        if let Ok(mut v) = sonic_rs::from_slice::<Value>(input) {
            let _ = v.get_mut("a").map(|x| x.is_null());
            let _ = v.get_mut(0usize).map(|x| x.is_null());
            let _ = v.pointer_mut(ps_mut(0).iter()).map(|x| x.is_null());
            let _ = v.pointer_mut(ps_mut(1).iter()).map(|x| x.is_null());
            let _ = v.pointer_mut(ps_mut(2).iter()).map(|x| x.is_null());
            let _ = v.as_array_mut().map(|a| a.len());
            let _ = v.as_object_mut().map(|o| o.len());
            // the same on every child (strings, numbers, literals)
            let n = v.as_array().map(|a| a.len()).unwrap_or(0).min(4);
            for i in 0..n {
                if let Some(c) = v.get_mut(i) {
                    let _ = c.get_mut("a").map(|x| x.is_null());
                    let _ = c.get_mut(0usize).map(|x| x.is_null());
                    let _ = c.pointer_mut(ps_mut(0).iter()).map(|x| x.is_null());
                }
            }
            ser_all(&v);
        }
        if let Ok(mut o) = sonic_rs::from_slice::<OwnedLazyValue>(input) {
            // read first (fills the cache), then mutate the same node
            let _ = o.get("a").map(|x| x.is_null());
            let _ = o.get(0usize).map(|x| x.is_null());
            let _ = o.as_array().map(|a| a.len());
            let _ = o.get_mut("a").map(|x| x.is_null());
            let _ = o.get_mut(0usize).map(|x| x.is_null());
            let _ = o.pointer_mut(ps_mut(0).iter()).map(|x| x.is_null());
            let _ = o.pointer_mut(ps_mut(2).iter()).map(|x| x.is_null());
            let _ = o.as_array_mut().map(|a| a.len());
            let _ = o.as_object_mut().map(|a| a.len());
            ser_all(&o);
        }
    });
    run("from_slice<Value>", &mut || match sonic_rs::from_slice::<Value>(input) {
        Ok(v) => {
            ser_all(&v);
            let _ = format!("{} {:?}", v, v);
            let c = v.clone();
            drop(v);
            ser_all(&c);
        }
        Err(e) => err_fmt(&e),
    });
    if let Some(s) = s {
        run("from_str<Value>", &mut || match sonic_rs::from_str::<Value>(s) {
            Ok(v) => ser_all(&v),
            Err(e) => err_fmt(&e),
        });
    }
    run("from_reader<Value>", &mut || match sonic_rs::from_reader::<_, Value>(input) {
        Ok(v) => ser_all(&v),
        Err(e) => err_fmt(&e),
    });
    typed!(String, "String");
    typed!(u64, "u64");
    typed!(f64, "f64");
    typed!(Rec, "struct");
    typed!(serde_json::Value, "serde_json::Value");
    typed!(IgnoredAny, "IgnoredAny");
    if full {
        typed!(i8, "i8");
        typed!(u128, "u128");
        typed!(char, "char");
        typed!(bool, "bool");
        typed!(Option<Vec<Option<bool>>>, "Option<Vec<Option<bool>>>");
        typed!(HashMap<String, Value>, "HashMap<String,Value>");
        typed!(HashMap<i16, f32>, "HashMap<i16,f32>");
        typed!((u8, String, Vec<u8>), "tuple");
        typed!(sonic_rs::RawNumber, "RawNumber");
        typed!(sonic_rs::Number, "Number");
        typed!(Vec<Value>, "Vec<Value>");
        typed!(sonic_rs::Object, "Object");
        typed!(sonic_rs::Array, "Array");
        typed!(Box<[u8]>, "Box<[u8]>");
        typed!(&str, "&str");
    }
    // lazy values
    run("from_slice<LazyValue>", &mut || match sonic_rs::from_slice::<LazyValue>(input) {
        Ok(v) => {
            use sonic_rs::JsonValueTrait;
            ser_all(&v);
            let _ = (v.as_str().map(|s| s.len()), v.as_number(), v.as_bool(), v.get(0usize).is_some(), v.get("a").is_some(), v.get_type());
            let _ = format!("{} {:?}", v, v);
            let o = OwnedLazyValue::from(v.clone());
            ser_all(&o);
            let _ = Value::try_from(v);
        }
        Err(e) => err_fmt(&e),
    });
    run("from_slice<OwnedLazyValue>", &mut || match sonic_rs::from_slice::<OwnedLazyValue>(input) {
        Ok(mut v) => {
            use sonic_rs::{JsonContainerTrait, JsonValueMutTrait, JsonValueTrait};
            ser_all(&v);
            let _ = (v.as_str().map(|s| s.len()), v.as_number(), v.get(0usize).is_some(), v.get("a").is_some(), v.get_type());
            let _ = v.as_array().map(|a| a.len());
            let _ = v.as_object().map(|a| a.len());
            let c = v.clone();
            let _ = v.as_array_mut().map(|a| a.pop());
            let _ = v.as_object_mut().map(|a| a.len());
            ser_all(&v);
            ser_all(&c);
            let _ = format!("{:?}", c);
        }
        Err(e) => err_fmt(&e),
    });
    // deserializers without trailing check, streams
    run("Deserializer::deserialize<Value> x3", &mut || {
        let mut de = Deserializer::from_slice(input);
        for _ in 0..3 {
            match de.deserialize::<Value>() {
                Ok(v) => ser_all(&v),
                Err(e) => err_fmt(&e),
            }
        }
    });
    if full {
        run("Deserializer(Bytes)::deserialize", &mut || {
            let b = Bytes::copy_from_slice(input);
            let mut de = Deserializer::from_json(&b);
            let _ = de.deserialize::<Value>().map(|v| ser_all(&v));
            let _ = de.deserialize::<LazyValue>().map(|v| ser_all(&v));
            let _ = de.deserialize::<String>();
        });
        if let Some(s) = s {
            run("Deserializer(FastStr)::deserialize", &mut || {
                let f = FastStr::new(s);
                let mut de = Deserializer::from_json(&f);
                let _ = de.deserialize::<OwnedLazyValue>().map(|v| ser_all(&v));
                let _ = de.deserialize::<Value>().map(|v| ser_all(&v));
            });
        }
        run("use_rawnumber / utf8_lossy", &mut || {
            let mut de = Deserializer::from_slice(input).use_rawnumber();
            let _ = de.deserialize::<Value>().map(|v| ser_all(&v));
            let mut de = Deserializer::from_slice(input).utf8_lossy();
            let _ = de.deserialize::<Value>().map(|v| ser_all(&v));
            let mut de = Deserializer::from_slice(input).utf8_lossy();
            let _ = de.deserialize::<String>();
        });
    }
    macro_rules! stream {
        ($t:ty, $name:expr) => {
            run(concat!("stream<", $name, ">"), &mut || {
                let mut st = Deserializer::from_slice(input).into_stream::<$t>();
                let mut extra = 0;
                for _ in 0..input.len() + 5 {
                    match st.next() {
                        Some(Ok(v)) => {
                            let _ = format!("{:?}", v);
                        }
                        Some(Err(e)) => {
                            err_fmt(&e);
                            extra += 1
                        }
                        None => extra += 1,
                    }
                    if extra > 3 {
                        break;
                    }
                }
            });
        };
    }
    stream!(Value, "Value");
    stream!(OwnedLazyValue, "OwnedLazyValue");
    if full {
        stream!(u8, "u8");
        stream!(String, "String");
    }
    // values that outlive their input: the text sits in a heap buffer of its own which is
    // overwritten and freed (under the fence: unmapped) before the values are read
    run("values outlive the input (embedded / streamed; plain, raw-number, lossy)", &mut || {
        for mode in 0..3 {
            let mk = |b: &[u8]| -> Vec<Value> {
                let de = Deserializer::from_slice(b);
                let mut de = match mode {
                    1 => de.use_rawnumber(),
                    2 => de.utf8_lossy(),
                    _ => de,
                };
                let mut out: Vec<Value> = de.deserialize::<Vec<Value>>().unwrap_or_default();
                // and the values of a stream over the same text
                let de = Deserializer::from_slice(&b[1..b.len() - 1]);
                let de = match mode {
                    1 => de.use_rawnumber(),
                    2 => de.utf8_lossy(),
                    _ => de,
                };
                let mut st = de.into_stream::<Value>();
                for _ in 0..3 {
                    if let Some(Ok(v)) = st.next() {
                        out.push(v);
                    }
                }
                out
            };
            let mut wrapped = Vec::with_capacity(input.len() + 6);
            wrapped.extend_from_slice(b"[0,");
            wrapped.extend_from_slice(input);
            wrapped.extend_from_slice(b" ]");
            // "[0,<input> ]" as Vec<Value>;  "0,<input> " as a stream (the comma ends it early
            // unless the input supplies its own documents: both are fine here)
            let vals = mk(&wrapped);
            wrapped.iter_mut().for_each(|b| *b = b'#');
            drop(wrapped);
            for v in &vals {
                ser_all(v);
                let _ = format!("{:?}", v);
            }
        }
    });
    // get family
    let ps = paths();
    run("get / get_many / get_by_schema", &mut || {
        for p in &ps {
            match sonic_rs::get(input, p.iter()) {
                Ok(lv) => {
                    use sonic_rs::JsonValueTrait;
                    let _ = (lv.as_raw_str().len(), lv.as_str().map(|s| s.len()), lv.get_type());
                    ser_all(&lv);
                }
                Err(e) => err_fmt(&e),
            }
        }
        let mut tree = PointerTree::new();
        tree.add_path(ps[1].iter());
        tree.add_path(ps[4].iter());
        tree.add_path(ps[5].iter());
        match sonic_rs::get_many(input, &tree) {
            Ok(v) => {
                for x in v.iter().flatten() {
                    let _ = x.as_raw_str().len();
                }
            }
            Err(e) => err_fmt(&e),
        }
        let mut tree = PointerTree::new();
        tree.add_path(ps[2].iter());
        tree.add_path(ps[7].iter());
        let _ = sonic_rs::get_many(input, &tree);
        match sonic_rs::get_by_schema(input, sonic_rs::json!({"a": null, "b": {"a": [1]}, "c": {}})) {
            Ok(v) => ser_all(&v),
            Err(e) => err_fmt(&e),
        }
    });
    if full {
        run("get over owning carriers", &mut || {
            let b = Bytes::copy_from_slice(input);
            for p in &ps {
                let _ = sonic_rs::get(&b, p.iter()).map(|lv| lv.as_raw_str().len());
                let _ = sonic_rs::get_from_bytes(&b, p.iter()).map(|lv| OwnedLazyValue::from(lv));
            }
            if let Some(s) = s {
                let f = FastStr::new(s);
                let st = s.to_string();
                for p in &ps {
                    let _ = sonic_rs::get(&f, p.iter()).map(|lv| lv.as_raw_faststr());
                    let _ = sonic_rs::get_from_faststr(&f, p.iter()).map(|lv| lv.as_raw_cow().len());
                    let _ = sonic_rs::get(&st, p.iter()).map(|lv| lv.as_raw_str().len());
                    let _ = sonic_rs::get_from_str(s, p.iter()).map(|lv| lv.as_raw_str().len());
                }
            }
        });
    }
    // iterators: drained + 3 extra polls
    run("to_array_iter", &mut || {
        let mut it = sonic_rs::to_array_iter(input);
        let mut extra = 0;
        while extra < 4 {
            match it.next() {
                Some(Ok(v)) => {
                    let _ = v.as_raw_str().len();
                }
                Some(Err(e)) => {
                    err_fmt(&e);
                    extra += 1
                }
                None => extra += 1,
            }
        }
    });
    run("to_object_iter", &mut || {
        let mut it = sonic_rs::to_object_iter(input);
        let mut extra = 0;
        while extra < 4 {
            match it.next() {
                Some(Ok((k, v))) => {
                    let _ = (k.len(), v.as_raw_str().len());
                }
                Some(Err(e)) => {
                    err_fmt(&e);
                    extra += 1
                }
                None => extra += 1,
            }
        }
    });
    if full {
        run("iterators over owning carriers", &mut || {
            let b = Bytes::copy_from_slice(input);
            let n = sonic_rs::to_array_iter(&b).take(input.len() + 2).count();
            let m = sonic_rs::to_object_iter(&b).take(input.len() + 2).count();
            let _ = (n, m);
            if let Some(s) = s {
                let f = FastStr::new(s);
                let _ = sonic_rs::to_array_iter(&f).take(input.len() + 2).count();
                let _ = sonic_rs::to_object_iter(s).take(input.len() + 2).count();
            }
        });
    }
    calls
}

fn record(ctx: &mut Ctx, input: &[u8], findings: Findings) {
    for (class, msg) in findings {
        ctx.outcome("VIOL:panic");
        ctx.violation(&class, json!({"input": show(input), "panic": msg}));
    }
}

/// fenced execution of the battery on a fresh thread
/// process-wide lazily initialised globals (ahash's random source, std's hash keys, ...) are
/// allocated once and never freed by design; touch them before the first fenced case so that they
/// are not counted as a leak of that case
pub fn warm_up() {
    static WARM: std::sync::Once = std::sync::Once::new();
    WARM.call_once(|| {
        let mut f = vec![];
        for d in [&br#"{"a":[0,{"a":"x
"}],"b":{"a":1.5e3},"c":{}}"#[..], b"[1,[2,3],[[4]]]", b"\"x\"", b"{"] {
            battery(d, true, &mut f);
        }
    });
}

pub fn check_fenced(ctx: &mut Ctx, input: &[u8], full: bool) {
    warm_up();
    let owned: Vec<u8> = input.to_vec();
    let o = fence::on_fresh_thread(8 << 20, move || {
        // the input itself lives in fenced memory, exactly sized: an over-read faults
        let buf: Box<[u8]> = owned.clone().into_boxed_slice();
        drop(owned);
        let mut f: Findings = fence::unarmed(Vec::new);
        let calls = battery(&buf, full, &mut f);
        drop(buf);
        (calls, f)
    });
    ctx.state();
    ctx.nontrivial();
    match o.result {
        Ok((calls, f)) => {
            ctx.calls(calls);
            if f.is_empty() {
                ctx.outcome("survived");
            }
            record(ctx, input, f);
        }
        Err(p) => ctx.violation("panic/outside-entry-point", json!({"input": show(input), "panic": p})),
    }
    ctx.note("fenced-allocations", o.allocations);
    if o.leaked_allocs != 0 {
        ctx.outcome("VIOL:leak");
        ctx.violation("leak", json!({"input": show(input), "live_allocations_after_minus_before": o.leaked_allocs, "bytes": o.leaked_bytes}));
    }
    ctx.sample(|| json!({"input": String::from_utf8_lossy(input), "fenced_allocations": o.allocations}));
}

pub fn check_plain(ctx: &mut Ctx, input: &[u8], full: bool) {
    let mut f = vec![];
    let calls = battery(input, full, &mut f);
    ctx.state();
    ctx.calls(calls);
    if f.is_empty() {
        ctx.outcome("survived");
    }
    record(ctx, input, f);
}

pub fn nesting_inputs(q: bool) -> Vec<Vec<u8>> {
    let mut ns: Vec<usize> = (1..=(if q { 40 } else { 300 })).collect();
    ns.extend([64, 127, 128, 129, 200, 253, 254, 255, 256, 257, 300, 511, 512, 513, 514, 1000]);
    let mut k = 2048;
    while k <= (1 << 20) {
        ns.push(k);
        k *= 2;
    }
    ns.sort();
    ns.dedup();
    let mut out = vec![];
    for n in ns {
        let mut a = vec![b'['; n];
        out.push(a.clone());
        a.extend(vec![b']'; n]);
        out.push(a);
        let mut o = vec![];
        for _ in 0..n {
            o.extend_from_slice(b"{\"a\":");
        }
        out.push(o.clone());
        o.push(b'1');
        o.extend(vec![b'}'; n]);
        out.push(o);
        let mut m = vec![];
        for i in 0..n {
            m.extend_from_slice(if i % 2 == 0 { b"[{\"a\":" } else { b"{\"a\":[" });
        }
        out.push(m);
    }
    out
}

pub fn families(tier: Tier, variant: &str) -> Vec<Family> {
    let q = tier == Tier::Quick;
    let fast = variant.contains("fast");
    let mut v = vec![];
    let seq = |name: &str, alpha: &'static [&'static [u8]], l: u32, pre: &'static [u8], post: &'static [u8], fenced: bool, full: bool| {
        let k = alpha.len() as u64;
        Family::new(name, gen::seq_count(k, l), move |idx, ctx| {
            let mut s = vec![];
            gen::nth_seq(k, l, idx, &mut s);
            let mut body = vec![];
            gen::concat(alpha, &s, &mut body);
            let mut d = pre.to_vec();
            d.extend_from_slice(&body);
            d.extend_from_slice(post);
            if fenced {
                check_fenced(ctx, &d, full)
            } else {
                check_plain(ctx, &d, full)
            }
        })
    };
    if !fast {
        // fenced families (small spaces, every allocation guarded)
        v.push(seq("fenced/s17", gen::S17, if q { 2 } else { 4 }, b"", b"", true, true));
        v.push(seq("fenced/t16", gen::T16, if q { 2 } else { 3 }, b"", b"", true, true));
        v.push(seq("fenced/b11-string", gen::B11, if q { 2 } else { 4 }, b"\"", b"\"", true, false));
        v.push(seq("fenced/b11-in-object", gen::B11, if q { 2 } else { 3 }, b"{\"a\":[0,\"", b"\"],\"b\":{\"a\":\"x\"}}", true, false));
        v.push(seq("fenced/n10", gen::N10, if q { 3 } else { 4 }, b"", b"", true, false));
        // seeds: every prefix, every substitution, every alignment
        for (si, seed) in lazy::seed_docs().into_iter().enumerate() {
            let n = seed.len() as u64;
            v.push(Family::new(&format!("fenced/seed{}-prefixes", si), n + 1, move |idx, ctx| check_fenced(ctx, &seed[..idx as usize], true)));
            let vals: Vec<u8> = if q { b"\"\\{[,:0e \x00\x80\xff".to_vec() } else { b"\"\\{}[],:0-.eE tn\x00\x1f\x7f\x80\xc3\xff".to_vec() };
            let nv = vals.len() as u64;
            let stride: u64 = if q { 3 } else { 1 };
            v.push(Family::new(&format!("fenced/seed{}-substitutions", si), (n / stride) * nv, move |idx, ctx| {
                let pos = ((idx / nv) * stride) as usize;
                let mut d = seed.to_vec();
                d[pos] = vals[(idx % nv) as usize];
                check_fenced(ctx, &d, false)
            }));
            v.push(Family::new(&format!("fenced/seed{}-alignment", si), if q { 9 } else { 65 }, move |idx, ctx| {
                let lead = if q { [0usize, 1, 15, 16, 31, 32, 33, 63, 64][idx as usize] } else { idx as usize };
                let mut d = vec![b' '; lead];
                d.extend_from_slice(seed);
                check_fenced(ctx, &d, true)
            }));
        }
        // strings / numbers of every length at the end of the (exactly sized) input buffer
        {
            let max = if q { 70 } else { 200 };
            v.push(Family::new("fenced/length-sweep", max * 6, move |idx, ctx| {
                let n = (idx / 6) as usize;
                let d = match idx % 6 {
                    0 => format!("\"{}\"", "a".repeat(n)),
                    1 => format!("\"{}\\\"", "a".repeat(n)),
                    2 => format!("[\"{}\\u00e9\",{}]", "b".repeat(n), "7".repeat(n.max(1))),
                    3 => format!("{{\"{}\":-0.{}e5,\"a\":[1", "k".repeat(n), "3".repeat(n)),
                    4 => format!("{}1", " ".repeat(n)),
                    _ => format!("[{}\"{}", " ".repeat(n % 7), "\\\\".repeat(n)),
                };
                check_fenced(ctx, d.as_bytes(), false)
            }));
        }
        // every escape kind after a plain prefix of every length (the scratch buffer that receives
        // the decoded text grows in steps: each escape is decoded at every fill level of it)
        {
            const ESCS: &[&str] = &["\\n", "\\u0041", "\\u00e9", "\\u20ac", "\\ud83d\\ude00", "\\ud800", "\\udc00x", "\\ud83d\\u0041"];
            let maxp: u64 = if q { 40 } else { 140 };
            let ne = ESCS.len() as u64;
            v.push(Family::new("fenced/escape-after-every-prefix", (maxp + 1) * ne * 4, move |idx, ctx| {
                let shape = idx % 4;
                let e = ESCS[((idx / 4) % ne) as usize];
                let n = (idx / 4 / ne) as usize;
                let pre: String = (0..n).map(|i| (b'a' + (i % 26) as u8) as char).collect();
                let d = match shape {
                    0 => format!("\"{pre}{e}\""),
                    1 => format!("\"{pre}{e}{e}tail\""),
                    2 => format!("{{\"{pre}{e}\":[\"{pre}{e}\",1]}}"),
                    _ => format!("[\"{e}\",\"{pre}{e}z\"]"),
                };
                check_fenced(ctx, d.as_bytes(), false)
            }));
        }
        v.push(Family::of_vec("fenced/nesting", nesting_inputs(true).into_iter().filter(|d| d.len() <= 4096).collect(), |d, ctx| check_fenced(ctx, d, false)));
    }
    // plain families: the large spaces, crash / panic oracle
    v.push(Family::of_vec("plain/nesting", nesting_inputs(q), |d, ctx| {
        // on a thread with a fixed 8 MiB stack
        let d2 = d.clone();
        let h = std::thread::Builder::new().stack_size(8 << 20).spawn(move || {
            let mut f = vec![];
            let c = battery(&d2, false, &mut f);
            (c, f)
        });
        let (c, f) = h.unwrap().join().unwrap_or((0, vec![("panic/thread".into(), "joined with panic".into())]));
        ctx.state();
        ctx.nontrivial();
        ctx.calls(c);
        if f.is_empty() {
            ctx.outcome("survived");
        }
        let short = if d.len() > 64 { &d[..64] } else { &d[..] };
        for (class, msg) in f {
            ctx.violation(&class, json!({"input_prefix": show(short), "input_len": d.len(), "panic": msg}));
        }
    }));
    {
        // long numbers around rounding midpoints (the slow big-decimal paths)
        let pats = crate::props::c07::halfway_bit_patterns(true);
        let pats: Vec<u64> = pats.into_iter().enumerate().filter(|(i, _)| !q || i % 5 == 0).map(|(_, b)| b).collect();
        v.push(Family::of_vec("plain/halfway-number-literals", pats, |bits, ctx| {
            for lit in crate::props::c07::halfway_literals(*bits) {
                check_plain(ctx, lit.as_bytes(), false);
                check_plain(ctx, format!("[{lit},-{lit}e-5]").as_bytes(), false);
            }
            ctx.nontrivial();
        }));
    }
    {
        let mut inputs: Vec<Vec<u8>> = vec![];
        for (_, d) in gen::corpus() {
            if d.len() > 700_000 {
                continue;
            }
            inputs.push(d.clone());
            let n = if q { 6 } else { 40 };
            for c in 1..n {
                let cut = d.len() * c / n;
                inputs.push(d[..cut].to_vec());
                let mut m = d.clone();
                m[cut] = b'"';
                inputs.push(m);
            }
        }
        v.push(Family::of_vec("plain/corpus-files(cuts)", inputs, |d, ctx| {
            check_plain(ctx, d, false);
            ctx.nontrivial();
        }));
    }
    v.push(seq("plain/s17", gen::S17, if q { 4 } else { 5 }, b"", b"", false, false));
    v.push(seq("plain/t16", gen::T16, if q { 4 } else { 5 }, b"", b"", false, false));
    v.push(seq("plain/b11-string", gen::B11, if q { 4 } else { 6 }, b"\"", b"\"", false, false));
    v.push(seq("plain/b11-bare", gen::B11, if q { 4 } else { 5 }, b"", b"", false, false));
    v.push(seq("plain/n10", gen::N10, if q { 5 } else { 6 }, b"", b"", false, false));
    {
        let (l, dev, more) = if q { (4, 1, 1) } else { (6, 1, 1) };
        v.push(c02::viable_family(&format!("plain/t16-viable<={l}+deviations<={dev}+tail<={more}"), l, dev, more, |d, ctx| check_plain(ctx, d, false)));
    }
    for (si, seed) in lazy::seed_docs().into_iter().enumerate() {
        let n = seed.len() as u64;
        v.push(Family::new(&format!("plain/seed{}-substitutions(all 256)", si), n * 256, move |idx, ctx| {
            let mut d = seed.to_vec();
            d[(idx / 256) as usize] = (idx % 256) as u8;
            check_plain(ctx, &d, true)
        }));
    }
    v
}
