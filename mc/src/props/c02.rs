//! C02 - validating entry points accept exactly the well-formed JSON texts.
//! (Also the case source for C20: every rejection produced here is position-checked there.)

use serde_json::json;

use crate::{
    engine::{guard, show, Ctx, Family, Tier},
    gen::{self, Framing},
    refjson::{self, Mode as RMode},
    subj::{self, EpInfo},
};

#[derive(Clone, Copy, PartialEq, Eq, Debug)]
pub enum Mode {
    /// C02: accept <=> reference accepts
    AcceptReject,
    /// C20: every Err locates itself inside the input
    ErrorPositions,
}

pub struct DocCheck {
    pub mode: Mode,
    pub framings: &'static [Framing],
    pub decode: bool,
    pub skip: bool,
    pub selfcheck: bool,
}

/// run every entry point x framing on one document
pub fn check_doc(ctx: &mut Ctx, doc: &[u8], dc: &DocCheck) {
    if dc.selfcheck {
        if let Err(e) = refjson::selfcheck_against_serde_json(doc) {
            eprintln!("MACHINERY: oracle self-check failed: {e}");
            std::process::exit(2);
        }
    }
    let mut text0 = Vec::with_capacity(doc.len() + 16);
    let mut text = Vec::with_capacity(doc.len() + 160);
    let groups: [(&[EpInfo], bool); 2] = [(subj::DECODE_EPS, dc.decode), (subj::SKIP_EPS, dc.skip)];
    let mut any_accept = false;
    for (eps, on) in groups {
        if !on {
            continue;
        }
        for info in eps {
            subj::wrap(info, doc, &mut text0);
            let Some(exp) = subj::expected(info, &text0) else {
                ctx.note("no-verdict(number runs into next byte, entry point without trailing check)", 1);
                continue;
            };
            if exp.is_ok() {
                any_accept = true;
            }
            for f in dc.framings {
                gen::frame(&text0, *f, &mut text);
                let r = guard(|| subj::call(info, &text));
                let r = match r {
                    Ok(None) => continue,
                    Ok(Some(r)) => r,
                    Err(p) => {
                        ctx.state();
                        ctx.call();
                        ctx.outcome("panic");
                        ctx.violation(
                            &format!("panic/{}", info.name),
                            json!({"entry": info.name, "framing": f.name(), "input": show(&text), "panic": p}),
                        );
                        continue;
                    }
                };
                ctx.state();
                ctx.call();
                ctx.tr(|t| {
                    t.bytes(&[r.is_ok() as u8]);
                    if let Err(e) = &r {
                        t.u64(e.offset() as u64);
                    }
                });
                match dc.mode {
                    Mode::AcceptReject => match (&exp, &r) {
                        (Ok(_), Ok(())) => ctx.outcome("accept"),
                        (Err(rej), Err(_)) => {
                            ctx.outcome(match rej.reason {
                                refjson::Reason::Eof | refjson::Reason::Empty => "reject:eof",
                                refjson::Reason::InvalidUtf8 => "reject:utf8",
                                refjson::Reason::LoneSurrogate => "reject:surrogate",
                                refjson::Reason::NumberNotFinite => "reject:nonfinite",
                                refjson::Reason::TrailingChars => "reject:trailing",
                                refjson::Reason::BadNumber => "reject:number",
                                refjson::Reason::BadHex | refjson::Reason::BadEscape => "reject:escape",
                                refjson::Reason::ControlInString => "reject:control",
                                _ => "reject:syntax",
                            });
                        }
                        (Ok(n), Err(e)) => {
                            if subj::is_depth_limit(e) && refjson::depth_of(n) >= 100 {
                                ctx.outcome("reject:depth-limit(allowed)");
                            } else {
                                ctx.outcome("VIOL:reject-wellformed");
                                ctx.violation(
                                    &format!("reject-wellformed/{}/{}", info.name, n.type_name()),
                                    json!({"entry": info.name, "framing": f.name(), "input": show(&text),
                                           "reference": "accepts", "observed_error": e.to_string()}),
                                );
                            }
                        }
                        (Err(rej), Ok(())) => {
                            ctx.outcome("VIOL:accept-malformed");
                            ctx.violation(
                                &format!("accept-malformed/{}/{:?}", info.name, rej.reason),
                                json!({"entry": info.name, "framing": f.name(), "input": show(&text),
                                       "reference": format!("rejects: {:?} at byte {} of the unframed text", rej.reason, rej.at),
                                       "observed": "Ok"}),
                            );
                        }
                    },
                    Mode::ErrorPositions => {
                        if let Err(e) = &r {
                            ctx.nontrivial();
                            match guard(|| {
                                let d = format!("{}", e);
                                let g = format!("{:?}", e);
                                (d.len(), g.len())
                            }) {
                                Ok(_) => {}
                                Err(p) => ctx.violation(
                                    &format!("display-panics/{}", info.name),
                                    json!({"entry": info.name, "input": show(&text), "panic": p}),
                                ),
                            }
                            if let Some((class, detail)) = subj::check_error_position(&text, e) {
                                ctx.outcome(&format!("VIOL:{}", class));
                                ctx.violation(
                                    &format!("{}/{}", class, info.name),
                                    json!({"entry": info.name, "framing": f.name(), "input": show(&text),
                                           "error": e.to_string(), "position": detail}),
                                );
                            } else {
                                ctx.outcome(&format!("err-located:{:?}", e.classify()));
                            }
                            if e.is_not_found() {
                                ctx.violation(
                                    &format!("not-found-from-parse/{}", info.name),
                                    json!({"entry": info.name, "input": show(&text), "error": e.to_string()}),
                                );
                            }
                        } else {
                            ctx.outcome("ok");
                        }
                    }
                }
            }
        }
    }
    if dc.mode == Mode::AcceptReject && any_accept {
        ctx.nontrivial();
    }
    ctx.sample(|| json!({"doc": String::from_utf8_lossy(doc), "reference_decode": format!("{:?}", refjson::parse_doc(doc, RMode::Decode).map(|n| n.type_name()))}));
}

fn seq_family(
    name: &str,
    alpha: &'static [&'static [u8]],
    max_len: u32,
    pre: &'static [u8],
    post: &'static [u8],
    dc: DocCheck,
) -> Family {
    let k = alpha.len() as u64;
    Family::new(name, gen::seq_count(k, max_len), move |idx, ctx| {
        let mut seq = vec![];
        gen::nth_seq(k, max_len, idx, &mut seq);
        let mut body = vec![];
        gen::concat(alpha, &seq, &mut body);
        let mut doc = Vec::with_capacity(body.len() + pre.len() + post.len());
        doc.extend_from_slice(pre);
        doc.extend_from_slice(&body);
        doc.extend_from_slice(post);
        check_doc(ctx, &doc, &dc);
    })
}

/// all viable token prefixes up to `max_len` (shortest first)
pub fn viable_prefixes(max_len: usize) -> Vec<Vec<u8>> {
    let t = gen::T16;
    let mut frontier: Vec<Vec<u8>> = vec![vec![]];
    let mut viable_all: Vec<Vec<u8>> = vec![vec![]];
    for _ in 0..max_len {
        let mut next = vec![];
        for p in &frontier {
            for tok in t {
                let mut q = p.clone();
                q.extend_from_slice(tok);
                if refjson::viable_prefix(&q, RMode::Decode) {
                    next.push(q);
                }
            }
        }
        viable_all.extend(next.iter().cloned());
        frontier = next;
    }
    viable_all
}

/// one case = one viable prefix (slot 0) or one viable prefix with one first deviating token and
/// everything the bounds allow after it (slots 1..=16)
pub fn viable_family(name: &str, l: usize, dev: usize, more: usize, check: impl Fn(&[u8], &mut Ctx) + Send + Sync + 'static) -> Family {
    let prefixes = viable_prefixes(l);
    let slots = gen::T16.len() as u64 + 1;
    Family::new(name, prefixes.len() as u64 * slots, move |idx, ctx| {
        let p = &prefixes[(idx / slots) as usize];
        let slot = (idx % slots) as usize;
        if slot == 0 {
            check(p, ctx);
            return;
        }
        if dev == 0 {
            return;
        }
        let mut cur = p.clone();
        cur.extend_from_slice(gen::T16[slot - 1]);
        if refjson::viable_prefix(&cur, RMode::Decode) {
            return;
        }
        // `cur` is the prefix plus its first deviation: enumerate the rest below it
        check(&cur, ctx);
        let mut f = |d: &[u8]| check(d, ctx);
        if dev > 1 {
            // further deviations (each again followed by the arbitrary tail)
            for_each_deviation_below(&mut cur, dev - 1, more, &mut f);
        } else {
            for_each_tail(&mut cur, more, &mut f);
        }
    })
}

fn for_each_tail(cur: &mut Vec<u8>, more: usize, f: &mut dyn FnMut(&[u8])) {
    if more == 0 {
        return;
    }
    for tok in gen::T16 {
        let n = cur.len();
        cur.extend_from_slice(tok);
        f(cur);
        for_each_tail(cur, more - 1, f);
        cur.truncate(n);
    }
}

fn for_each_deviation_below(cur: &mut Vec<u8>, dev: usize, more: usize, f: &mut dyn FnMut(&[u8])) {
    for tok in gen::T16 {
        let n = cur.len();
        cur.extend_from_slice(tok);
        if !refjson::viable_prefix(cur, RMode::Decode) {
            f(cur);
            if dev > 1 {
                for_each_deviation_below(cur, dev - 1, more, f);
            } else {
                for_each_tail(cur, more, f);
            }
        }
        cur.truncate(n);
    }
}

pub fn ws_run_docs(max_run: usize) -> Vec<Vec<u8>> {
    // fixed document; a whitespace run of every length 0..=max_run at each token gap in turn
    let toks: [&[u8]; 13] =
        [b"{", b"\"a\"", b":", b"[", b"1", b",", b"\"x\"", b",", b"true", b"]", b",", b"\"b\"", b":"];
    let tail: [&[u8]; 2] = [b"null", b"}"];
    let mut all: Vec<&[u8]> = toks.to_vec();
    all.extend_from_slice(&tail);
    let mut out = vec![];
    let ws = [b' ', b'\n', b'\t', b'\r'];
    for gap in 0..=all.len() {
        for run in 0..=max_run {
            for (wi, w) in ws.iter().enumerate() {
                if wi > 0 && run % 16 != 1 {
                    continue; // other whitespace bytes only at a few run lengths
                }
                let mut d = vec![];
                for (i, t) in all.iter().enumerate() {
                    if i == gap {
                        d.extend(std::iter::repeat(*w).take(run));
                    }
                    d.extend_from_slice(t);
                }
                if gap == all.len() {
                    d.extend(std::iter::repeat(*w).take(run));
                }
                out.push(d);
            }
        }
    }
    out
}

/// digit runs x position of '.' x position of 'e' (so that the 32-byte loop of the number
/// skipper and the 16-digit fraction reader see every split)
pub fn number_position_docs(max_digits: usize) -> Vec<Vec<u8>> {
    let mut out = vec![];
    for n in 1..=max_digits {
        // plain
        let digits: Vec<u8> = (0..n).map(|i| b'1' + (i % 9) as u8).collect();
        out.push(digits.clone());
        let mut neg = vec![b'-'];
        neg.extend_from_slice(&digits);
        out.push(neg);
        for dot in 1..n {
            let mut d = digits[..dot].to_vec();
            d.push(b'.');
            d.extend_from_slice(&digits[dot..]);
            out.push(d.clone());
            // exponent at the end, and malformed variants
            let mut e = d.clone();
            e.extend_from_slice(b"e-3");
            out.push(e);
            let mut bad = d.clone();
            bad.push(b'.');
            out.push(bad);
            let mut bad2 = digits[..dot].to_vec();
            bad2.extend_from_slice(b".e1");
            out.push(bad2);
            let mut bad3 = digits[..dot].to_vec();
            bad3.push(b'.');
            out.push(bad3);
        }
        for epos in 1..n {
            if epos % 3 != 1 && n > 40 {
                continue;
            }
            let mut d = digits[..epos].to_vec();
            d.push(b'E');
            d.push(b'+');
            d.extend_from_slice(&digits[epos..].iter().take(3).cloned().collect::<Vec<_>>());
            out.push(d);
            let mut bad = digits[..epos].to_vec();
            bad.push(b'e');
            out.push(bad);
            let mut bad = digits[..epos].to_vec();
            bad.extend_from_slice(b"e+");
            out.push(bad);
        }
    }
    out
}

/// digit run of every length 0..=max_run followed by every N10 string up to `tail_len`
/// (so every malformed continuation is tried at every alignment of the number scanners)
pub fn digit_run_tail_family(name: &str, max_run: u64, tail_len: u32, pre: &'static [u8], post: &'static [u8], dc: DocCheck) -> Family {
    let k = gen::N10.len() as u64;
    let tails = gen::seq_count(k, tail_len);
    Family::new(name, (max_run + 1) * tails, move |idx, ctx| {
        let run = idx / tails;
        let mut seq = vec![];
        gen::nth_seq(k, tail_len, idx % tails, &mut seq);
        let mut tail = vec![];
        gen::concat(gen::N10, &seq, &mut tail);
        let mut doc = pre.to_vec();
        doc.extend((0..run).map(|i| b'1' + (i % 9) as u8));
        doc.extend_from_slice(&tail);
        doc.extend_from_slice(post);
        check_doc(ctx, &doc, &dc);
    })
}

pub fn nesting_docs(max: usize) -> Vec<Vec<u8>> {
    let mut out = vec![];
    let mut ns: Vec<usize> = (1..=max.min(140)).collect();
    let mut k = 160;
    while k <= max {
        ns.push(k);
        k += k / 3;
    }
    for n in ns {
        let mut a = vec![b'['; n];
        a.extend(vec![b']'; n]);
        out.push(a);
        let mut o = vec![];
        for _ in 0..n {
            o.extend_from_slice(b"{\"a\":");
        }
        o.push(b'1');
        o.extend(vec![b'}'; n]);
        out.push(o);
        // unbalanced
        let mut u = vec![b'['; n];
        u.extend(vec![b']'; n - 1]);
        out.push(u);
    }
    out
}

pub fn families(tier: Tier, variant: &str, mode: Mode) -> Vec<Family> {
    families_opt(tier, variant, mode, true)
}

/// `with_viable = false` leaves out the (expensive to materialise) deviation-bounded token family
pub fn families_opt(tier: Tier, _variant: &str, mode: Mode, with_viable: bool) -> Vec<Family> {
    let full = gen::FRAMINGS_FULL;
    let f2 = gen::FRAMINGS_2;
    let f3 = gen::FRAMINGS_3;
    let q = tier == Tier::Quick;
    let sc = mode == Mode::AcceptReject;
    let dc = |framings: &'static [Framing]| DocCheck { mode, framings, decode: true, skip: true, selfcheck: sc };
    let mut v = vec![];
    v.push(seq_family("t16-full", gen::T16, if q { 3 } else { 5 }, b"", b"", dc(if q { full } else { f3 })));
    if with_viable {
        let d = dc(if q { f2 } else { f3 });
        let (l, dev, more) = if q { (5, 1, 1) } else { (6, 2, 1) };
        // one case = one viable prefix with all its bounded deviations
        v.push(viable_family(&format!("t16-viable<={l}+deviations<={dev}+tail<={more}"), l, dev, more, move |doc, ctx| check_doc(ctx, doc, &d)));
    }
    v.push(seq_family("b11-root-string", gen::B11, if q { 4 } else { 6 }, b"\"", b"\"", dc(f2)));
    v.push(seq_family("b11-key", gen::B11, if q { 3 } else { 5 }, b"{\"", b"\":1}", dc(f2)));
    v.push(seq_family("b11-element", gen::B11, if q { 3 } else { 5 }, b"[0,\"", b"\"]", dc(f2)));
    v.push(seq_family("b11-bare", gen::B11, if q { 3 } else { 5 }, b"", b"", dc(f2)));
    v.push(seq_family("n10", gen::N10, if q { 5 } else { 7 }, b"", b"", dc(f2)));
    v.push(seq_family("n10-element", gen::N10, if q { 4 } else { 6 }, b"[", b",1]", dc(f2)));
    v.push(seq_family("literals", gen::L10, if q { 4 } else { 6 }, b"", b"", dc(f2)));
    {
        let d = dc(f2);
        v.push(Family::of_vec("whitespace-runs", ws_run_docs(if q { 70 } else { 200 }), move |doc, ctx| {
            check_doc(ctx, doc, &d)
        }));
    }
    {
        let d = dc(f3);
        v.push(Family::of_vec("number-positions", number_position_docs(if q { 40 } else { 72 }), move |doc, ctx| {
            check_doc(ctx, doc, &d)
        }));
    }
    {
        // string bodies: escape head + plain run + every B11 tail, as root string and as key
        let (heads, max_run, tl) = if q { (2usize, 70u64, 3u32) } else { (3, 140, 3) };
        for (name, pre, post) in [("string-head-run-tail/root", &b"\""[..], &b"\""[..]), ("string-head-run-tail/key+element", &b"{\"k\":[\""[..], &b"\"]}"[..])] {
            let d = dc(f2);
            let sub = if name.ends_with("root") { 1 } else { 3 };
            v.push(Family::new(name, gen::head_run_tail_count(heads, max_run / sub, tl), move |idx, ctx| {
                let body = gen::head_run_tail_body(heads, max_run / sub, tl, idx);
                let mut doc = pre.to_vec();
                doc.extend_from_slice(&body);
                doc.extend_from_slice(post);
                check_doc(ctx, &doc, &d);
            }));
        }
    }
    // every byte value inserted / substituted at every position of three short documents
    for (si, seed) in gen::SHORT_SEEDS.iter().enumerate() {
        let d = dc(&f2[..1]);
        let seed = seed.as_bytes();
        v.push(Family::new(&format!("byte-neighbourhood/seed{si}(all 256 values)"), gen::byte_neighbourhood_count(seed), move |idx, ctx| {
            check_doc(ctx, &gen::byte_neighbourhood(seed, idx), &d)
        }));
    }
    {
        // a backslash followed by every byte value, alone, inside text and before the closing quote
        let d = dc(f2);
        v.push(Family::new("backslash+every-byte", 256, move |x, ctx| {
            let b = x as u8;
            for (pre, post) in [(&b""[..], &b""[..]), (b"ab", b"cd"), (b"\\n", b"0000"), (b"", b"\\")] {
                let mut doc = vec![b'"'];
                doc.extend_from_slice(pre);
                doc.push(b'\\');
                doc.push(b);
                doc.extend_from_slice(post);
                doc.push(b'"');
                check_doc(ctx, &doc, &d);
                let mut key = b"{".to_vec();
                key.extend_from_slice(&doc);
                key.extend_from_slice(b":1}");
                check_doc(ctx, &key, &d);
            }
        }));
    }
    {
        // number literals at the edges of the f64 range
        let d = dc(f2);
        let mut docs: Vec<Vec<u8>> = vec![];
        for n in gen::range_edge_numbers() {
            docs.push(n.clone().into_bytes());
            docs.push(format!("[{n},{{\"k\":{n}}}]").into_bytes());
        }
        v.push(Family::of_vec("range-edge-numbers", docs, move |doc, ctx| check_doc(ctx, doc, &d)));
    }
    {
        // every \uXXXX escape as the last thing before the closing quote, the quote being the last
        // byte of the input (and, second framing, followed by whitespace); also after a plain byte
        // and as a key
        let d = dc(f2);
        v.push(Family::new("all-u-escapes/at-end-of-input", 65536, move |x, ctx| {
            for up in [false, true] {
                let e = if up { format!("\\u{:04X}", x) } else { format!("\\u{:04x}", x) };
                check_doc(ctx, format!("\"{e}\"").as_bytes(), &d);
                if !up {
                    check_doc(ctx, format!("\"x{e}\"").as_bytes(), &d);
                    check_doc(ctx, format!("{{\"{e}\":\"{e}\"}}").as_bytes(), &d);
                }
            }
        }));
    }
    {
        let d = dc(f2);
        let mut docs: Vec<Vec<u8>> = gen::number_shape_docs().into_iter().map(|s| s.into_bytes()).collect();
        for e in gen::SPACED_EMPTIES {
            docs.push(e.as_bytes().to_vec());
            docs.push(format!("[{e},{{\"a\":{e}}} ,{e}]").into_bytes());
            docs.push(format!("{{\"a\":{e},\"b\":[{e}]}}").into_bytes());
        }
        v.push(Family::of_vec("number-shapes+spaced-empties", docs, move |doc, ctx| check_doc(ctx, doc, &d)));
    }
    {
        // corpus documents whole, cut at evenly spaced points and with one byte replaced there
        let mut inputs: Vec<Vec<u8>> = vec![];
        for (_, d) in gen::corpus() {
            inputs.push(d.clone());
            if d.len() > 700_000 {
                continue;
            }
            let n = if q { 8 } else { 64 };
            for c in 1..n {
                let cut = d.len() * c / n;
                inputs.push(d[..cut].to_vec());
                for b in [b'"', b'\\', b'}', b',', 0xffu8, b'0', b' '] {
                    let mut m = d.clone();
                    m[cut] = b;
                    inputs.push(m);
                }
            }
        }
        let d = dc(&f2[..1]);
        v.push(Family::of_vec("corpus-files/cuts+substitutions", inputs, move |doc, ctx| check_doc(ctx, doc, &d)));
    }
    v.push(digit_run_tail_family("digit-run+n10-tail", if q { 70 } else { 140 }, if q { 4 } else { 5 }, b"", b"", dc(f2)));
    v.push(digit_run_tail_family("digit-run+n10-tail/element", if q { 70 } else { 140 }, if q { 2 } else { 3 }, b"[", b",2]", dc(f2)));
    {
        let d = DocCheck { mode, framings: f2, decode: true, skip: true, selfcheck: false };
        v.push(Family::of_vec("nesting", nesting_docs(if q { 300 } else { 2000 }), move |doc, ctx| {
            check_doc(ctx, doc, &d)
        }));
    }
    v
}
