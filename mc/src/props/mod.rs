//! Property registry: property id -> families of cases.
use crate::engine::{Family, Tier, WorkerHooks};

pub mod c01;
pub mod c02;
pub mod c03;
pub mod c04;
pub mod c05;
pub mod c07;
pub mod c08;
pub mod c09;
pub mod c13;
pub mod c15;
pub mod c16;
pub mod c17;
#[cfg(feature = "loom")]
pub mod c18;
pub mod c19;
pub mod c20;
pub mod lazy;

pub const ALL: &[&str] = &["C01", "C02", "C03", "C04", "C05", "C06", "C07", "C08", "C09", "C10", "C11", "C12", "C13", "C14", "C15", "C16", "C17", "C18", "C19", "C20"];

pub fn families(prop: &str, tier: Tier, variant: &str) -> Vec<Family> {
    match prop {
        "C01" => c01::families(tier, variant),
        "C02" => c02::families(tier, variant, c02::Mode::AcceptReject),
        "C05" => c05::families(tier, variant),
        "C04" => c04::families(tier, variant),
        "C03" => c03::families(tier, variant, c03::Mode::Tree),
        "C07" => c07::families(tier, variant),
        "C08" => c08::families(tier, variant),
        "C10" => lazy::families_c10(tier),
        "C11" => lazy::families_c11(tier),
        "C12" => lazy::families_c12(tier),
        "C14" => lazy::families_c14(tier),
        "C15" => c15::families(tier, variant),
        "C16" => c16::families(tier, variant),
        #[cfg(feature = "loom")]
        "C18" => c18::families(tier, variant),
        "C17" => c17::families(tier, variant),
        "C19" => c19::families(tier, variant),
        "C20" => c20::families(tier, variant),
        "C13" => c13::families(tier, variant),
        "C09" => c09::families(tier, variant),
        "C06" => c03::families(tier, variant, c03::Mode::RoundTrip),
        _ => vec![],
    }
}

pub fn worker_hooks(_prop: &str) -> WorkerHooks {
    WorkerHooks::default()
}
