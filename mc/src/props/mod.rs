//! Property registry: property id -> families of cases.
use crate::engine::{Family, Tier, WorkerHooks};

pub mod c02;

pub const ALL: &[&str] = &["C02"];

pub fn families(prop: &str, tier: Tier, variant: &str) -> Vec<Family> {
    match prop {
        "C02" => c02::families(tier, variant, c02::Mode::AcceptReject),
        _ => vec![],
    }
}

pub fn worker_hooks(_prop: &str) -> WorkerHooks {
    WorkerHooks::default()
}
