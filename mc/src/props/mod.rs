//! Property registry: property id -> families of cases.
use crate::engine::{Family, Tier, WorkerHooks};

pub mod c02;
pub mod c03;
pub mod c09;

pub const ALL: &[&str] = &["C02", "C03", "C06", "C09"];

pub fn families(prop: &str, tier: Tier, variant: &str) -> Vec<Family> {
    match prop {
        "C02" => c02::families(tier, variant, c02::Mode::AcceptReject),
        "C03" => c03::families(tier, variant, c03::Mode::Tree),
        "C09" => c09::families(tier, variant),
        "C06" => c03::families(tier, variant, c03::Mode::RoundTrip),
        _ => vec![],
    }
}

pub fn worker_hooks(_prop: &str) -> WorkerHooks {
    WorkerHooks::default()
}
