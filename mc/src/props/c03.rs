//! C03 - a parsed document equals the reference data model of its text.
//! C06 - parse then serialize is lossless and a fixpoint (same document spaces).

use serde::Deserialize;
use serde_json::json;
use sonic_rs::{Array, Deserializer, JsonValueTrait, Object, Value};

use crate::{
    engine::{guard, show, Ctx, Family, Tier},
    gen::{self, DocGen, Framing},
    refjson::{self, Kind, Mode as RMode, Node, Num},
    walk,
};

#[derive(Clone, Copy, PartialEq, Eq, Debug)]
pub enum Mode {
    Tree,
    RoundTrip,
}

#[derive(Deserialize)]
struct WrapV {
    v: Value,
}
#[derive(Deserialize)]
struct WrapV2 {
    #[allow(dead_code)]
    a: u8,
    v: Value,
    w: Value,
}

fn viol(ctx: &mut Ctx, class: &str, entry: &str, text: &[u8], msg: String) {
    ctx.outcome("VIOL");
    ctx.violation(&format!("{}/{}", class, entry), json!({"entry": entry, "input": show(text), "mismatch": msg}));
}

fn ok_or(ctx: &mut Ctx, entry: &str, text: &[u8], r: Result<Result<(), String>, String>) {
    ctx.state();
    ctx.call();
    ctx.tr(|t| t.bytes(&[matches!(r, Ok(Ok(()))) as u8]));
    match r {
        Ok(Ok(())) => ctx.outcome("equal"),
        Ok(Err(m)) => viol(ctx, "tree-mismatch", entry, text, m),
        Err(p) => viol(ctx, "panic", entry, text, p),
    }
}

/// parse from a heap copy of the text, then overwrite and free that copy before the result is
/// looked at: what was produced must not depend on the caller's buffer any more
fn scribbled<T: 'static>(text: &[u8], parse: impl FnOnce(&[u8]) -> Result<T, String>) -> Result<T, String> {
    let mut buf = text.to_vec();
    let r = parse(&buf);
    buf.iter_mut().for_each(|b| *b = b'#');
    // the overwritten buffer stays allocated until the end of the case, so that a value still
    // pointing into it reads '#' every time instead of whatever reuses the memory
    GRAVE.with(|g| g.borrow_mut().push(buf));
    r
}

thread_local! {
    static GRAVE: std::cell::RefCell<Vec<Vec<u8>>> = const { std::cell::RefCell::new(Vec::new()) };
}

fn sizes_len_hint() -> u64 {
    40
}

fn rawnum_default() -> bool {
    cfg!(feature = "arbitrary_precision")
}

/// C03 on one accepted document
pub fn check_tree(ctx: &mut Ctx, doc: &[u8], framings: &[Framing]) {
    if refjson::parse_doc(doc, RMode::Decode).is_err() {
        ctx.outcome("skipped:not-accepted-by-reference");
        return;
    }
    ctx.nontrivial();
    GRAVE.with(|g| g.borrow_mut().clear());
    let rn = rawnum_default();
    let mut text = vec![];
    for f in framings {
        gen::frame(doc, *f, &mut text);
        let root = refjson::parse_doc(&text, RMode::Decode).expect("framing keeps validity");
        // (a) root in-place parse, from_slice and from_str
        ok_or(
            ctx,
            "from_slice<Value>",
            &text,
            guard(|| {
                let v: Value = scribbled(&text, |b| sonic_rs::from_slice(b).map_err(|e| format!("rejected: {e}")))?;
                walk::cmp_value(&v, &root, &text, rn)
            }),
        );
        let s = std::str::from_utf8(&text).unwrap();
        ok_or(
            ctx,
            "from_str<Value>",
            &text,
            guard(|| {
                let v: Value = sonic_rs::from_str(s).map_err(|e| format!("rejected: {e}"))?;
                walk::cmp_value(&v, &root, &text, rn)
            }),
        );
        // (g) raw-number mode and lossy mode on valid text
        ok_or(
            ctx,
            "use_rawnumber<Value>",
            &text,
            guard(|| {
                let v: Value = scribbled(&text, |b| {
                    let mut de = Deserializer::from_slice(b).use_rawnumber();
                    de.deserialize().map_err(|e| format!("rejected: {e}"))
                })?;
                walk::cmp_value(&v, &root, &text, true)
            }),
        );
        for order in 0..2 {
            ok_or(
                ctx,
                if order == 0 { "use_rawnumber+utf8_lossy<Value>" } else { "utf8_lossy+use_rawnumber<Value>" },
                &text,
                guard(|| {
                    let v: Value = scribbled(&text, |b| {
                        let de = Deserializer::from_slice(b);
                        let mut de = if order == 0 { de.use_rawnumber().utf8_lossy() } else { de.utf8_lossy().use_rawnumber() };
                        de.deserialize().map_err(|e| format!("rejected: {e}"))
                    })?;
                    walk::cmp_value(&v, &root, &text, true)
                }),
            );
        }
        ok_or(
            ctx,
            "utf8_lossy<Value>",
            &text,
            guard(|| {
                let v: Value = scribbled(&text, |b| {
                    let mut de = Deserializer::from_slice(b).utf8_lossy();
                    de.deserialize().map_err(|e| format!("rejected: {e}"))
                })?;
                walk::cmp_value(&v, &root, &text, rn)
            }),
        );
        // (f) Object / Array targets
        match &root.kind {
            Kind::Obj(_) => ok_or(
                ctx,
                "from_slice<Object>",
                &text,
                guard(|| {
                    let o: Object = scribbled(&text, |b| sonic_rs::from_slice(b).map_err(|e| format!("rejected: {e}")))?;
                    walk::cmp_value(&o.into_value(), &root, &text, rn)
                }),
            ),
            Kind::Arr(_) => ok_or(
                ctx,
                "from_slice<Array>",
                &text,
                guard(|| {
                    let o: Array = scribbled(&text, |b| sonic_rs::from_slice(b).map_err(|e| format!("rejected: {e}")))?;
                    walk::cmp_value(&o.into_value(), &root, &text, rn)
                }),
            ),
            _ => {}
        }
    }
    // embedded / streamed copies (copy parser): only bare + trail framing of the wrapper
    let mut w = vec![];
    for f in &framings[..framings.len().min(2)] {
        // (c) field of a struct
        w.clear();
        w.extend_from_slice(b"{\"v\":");
        w.extend_from_slice(doc);
        w.extend_from_slice(b"}");
        gen::frame(&w.clone(), *f, &mut text);
        let root = refjson::parse_doc(&text, RMode::Decode).unwrap();
        let Kind::Obj(m) = &root.kind else { unreachable!() };
        let vn = &m[0].1;
        ok_or(
            ctx,
            "struct{v:Value}",
            &text,
            guard(|| {
                let x: WrapV = scribbled(&text, |b| sonic_rs::from_slice(b).map_err(|e| format!("rejected: {e}")))?;
                walk::cmp_value(&x.v, vn, &text, rn)
            }),
        );
        ok_or(
            ctx,
            "struct{v:Value} use_rawnumber",
            &text,
            guard(|| {
                let x: WrapV = scribbled(&text, |b| {
                    let mut de = Deserializer::from_slice(b).use_rawnumber();
                    de.deserialize().map_err(|e| format!("rejected: {e}"))
                })?;
                walk::cmp_value(&x.v, vn, &text, true)
            }),
        );
        // two fields after a scalar field
        w.clear();
        w.extend_from_slice(b"{\"a\":7,\"v\":");
        w.extend_from_slice(doc);
        w.extend_from_slice(b" ,\"w\": ");
        w.extend_from_slice(doc);
        w.extend_from_slice(b"}");
        gen::frame(&w.clone(), *f, &mut text);
        let root = refjson::parse_doc(&text, RMode::Decode).unwrap();
        let Kind::Obj(m) = &root.kind else { unreachable!() };
        ok_or(
            ctx,
            "struct{a,v:Value,w:Value}",
            &text,
            guard(|| {
                let x: WrapV2 = scribbled(&text, |b| sonic_rs::from_slice(b).map_err(|e| format!("rejected: {e}")))?;
                walk::cmp_value(&x.v, &m[1].1, &text, rn)?;
                walk::cmp_value(&x.w, &m[2].1, &text, rn)
            }),
        );
        // (d) elements of Vec<Value>
        w.clear();
        w.extend_from_slice(b"[");
        w.extend_from_slice(doc);
        w.extend_from_slice(b",");
        w.extend_from_slice(doc);
        // (two more elements of other kinds: values of one Vec must not share a slot)
        w.extend_from_slice(b" ,12.50,\"\"]");
        gen::frame(&w.clone(), *f, &mut text);
        let root = refjson::parse_doc(&text, RMode::Decode).unwrap();
        let Kind::Arr(items) = &root.kind else { unreachable!() };
        ok_or(
            ctx,
            "Vec<Value>",
            &text,
            guard(|| {
                let x: Vec<Value> = scribbled(&text, |b| sonic_rs::from_slice(b).map_err(|e| format!("rejected: {e}")))?;
                if x.len() != 4 {
                    return Err(format!("{} elements", x.len()));
                }
                for k in 0..4 {
                    walk::cmp_value(&x[k], &items[k], &text, rn).map_err(|m| format!("element {k}: {m}"))?;
                }
                Ok(())
            }),
        );
        ok_or(
            ctx,
            "Vec<Value> use_rawnumber",
            &text,
            guard(|| {
                let x: Vec<Value> = scribbled(&text, |b| {
                    let mut de = Deserializer::from_slice(b).use_rawnumber();
                    de.deserialize().map_err(|e| format!("rejected: {e}"))
                })?;
                if x.len() != 4 {
                    return Err(format!("{} elements", x.len()));
                }
                for k in 0..4 {
                    walk::cmp_value(&x[k], &items[k], &text, true).map_err(|m| format!("element {k}: {m}"))?;
                }
                Ok(())
            }),
        );
        // (e) second and third document of a stream (whitespace separated)
        w.clear();
        w.extend_from_slice(b"0 ");
        w.extend_from_slice(doc);
        w.extend_from_slice(b"\n");
        w.extend_from_slice(doc);
        w.extend_from_slice(b" 12.50");
        gen::frame(&w.clone(), *f, &mut text);
        let n1 = refjson::parse_value_at(&text, 0, RMode::Decode).unwrap();
        let n2 = refjson::parse_value_at(&text, n1.end, RMode::Decode).unwrap();
        let n3 = refjson::parse_value_at(&text, n2.end, RMode::Decode).unwrap();
        ok_or(
            ctx,
            "stream<Value> 2nd+3rd",
            &text,
            guard(|| {
                let (a, b): (Value, Value) = scribbled(&text, |buf| {
                    let mut st = Deserializer::from_slice(buf).into_stream::<Value>();
                    let _ = st.next();
                    let a = st.next().ok_or("stream ended early")?.map_err(|e| format!("2nd rejected: {e}"))?;
                    let b = st.next().ok_or("stream ended early")?.map_err(|e| format!("3rd rejected: {e}"))?;
                    // a later document of the same stream is parsed while the earlier values live
                    let c = st.next().ok_or("stream ended early")?.map_err(|e| format!("4th rejected: {e}"))?;
                    if c.as_f64() != Some(12.5) {
                        return Err(format!("4th document reads {c}"));
                    }
                    Ok((a, b))
                })?;
                walk::cmp_value(&a, &n2, &text, rn)?;
                walk::cmp_value(&b, &n3, &text, rn)?;
                // values of one stream have independent lifetimes
                drop(a);
                walk::cmp_value(&b, &n3, &text, rn)
            }),
        );
        // raw-number mode on the copying parser
        ok_or(
            ctx,
            "stream use_rawnumber 2nd",
            &text,
            guard(|| {
                let (a, b): (Value, Value) = scribbled(&text, |buf| {
                    let mut st = Deserializer::from_slice(buf).use_rawnumber().into_stream::<Value>();
                    let _ = st.next();
                    let a = st.next().ok_or("stream ended early")?.map_err(|e| format!("2nd rejected: {e}"))?;
                    let b = st.next().ok_or("stream ended early")?.map_err(|e| format!("3rd rejected: {e}"))?;
                    // a later document of the same stream is parsed while the earlier values live
                    let c = st.next().ok_or("stream ended early")?.map_err(|e| format!("4th rejected: {e}"))?;
                    if c.as_f64() != Some(12.5) {
                        return Err(format!("4th document reads {c}"));
                    }
                    Ok((a, b))
                })?;
                walk::cmp_value(&a, &n2, &text, true)?;
                walk::cmp_value(&b, &n3, &text, true)
            }),
        );
    }
    ctx.sample(|| json!({"doc": String::from_utf8_lossy(doc)}));
}

// ---------------------------------------------------------------------------------------
// C06

/// dump of the reference tree in which I(0) (only produced by the literal -0) is the float -0.0
fn norm_dump(n: &Node, sort: bool, out: &mut String) {
    match &n.kind {
        Kind::Num(Num::I(0)) => out.push_str(&format!("f{:016x}", (-0.0f64).to_bits())),
        Kind::Arr(a) => {
            out.push('[');
            for (i, x) in a.iter().enumerate() {
                if i > 0 {
                    out.push(',');
                }
                norm_dump(x, sort, out);
            }
            out.push(']');
        }
        Kind::Obj(o) => {
            let mut items: Vec<&(Node, Node)> = o.iter().collect();
            if sort {
                items.sort_by(|a, b| a.0.key_str().cmp(b.0.key_str())); // stable
            }
            out.push('{');
            for (i, (k, v)) in items.iter().enumerate() {
                if i > 0 {
                    out.push(',');
                }
                out.push_str(&format!("{:?}:", k.key_str()));
                norm_dump(v, sort, out);
            }
            out.push('}');
        }
        _ => n.dump(out),
    }
}

/// with raw numbers the literal text is what counts
fn lit_dump(n: &Node, src: &[u8], sort: bool, out: &mut String) {
    match &n.kind {
        Kind::Num(_) => {
            out.push('#');
            out.push_str(std::str::from_utf8(n.text(src)).unwrap());
        }
        Kind::Arr(a) => {
            out.push('[');
            for x in a {
                lit_dump(x, src, sort, out);
                out.push(',');
            }
            out.push(']');
        }
        Kind::Obj(o) => {
            let mut items: Vec<&(Node, Node)> = o.iter().collect();
            if sort {
                items.sort_by(|a, b| a.0.key_str().cmp(b.0.key_str()));
            }
            out.push('{');
            for (k, v) in items {
                out.push_str(&format!("{:?}:", k.key_str()));
                lit_dump(v, src, sort, out);
                out.push(',');
            }
            out.push('}');
        }
        _ => n.dump(out),
    }
}

fn has_dup(n: &Node) -> bool {
    n.has_duplicate_keys()
}

pub fn check_roundtrip(ctx: &mut Ctx, doc: &[u8]) {
    let Ok(root) = refjson::parse_doc(doc, RMode::Decode) else {
        ctx.outcome("skipped:not-accepted-by-reference");
        return;
    };
    ctx.nontrivial();
    let sort = cfg!(feature = "sort_keys");
    let arb = cfg!(feature = "arbitrary_precision");
    let r = guard(|| -> Result<(), String> {
        let v: Value = sonic_rs::from_slice(doc).map_err(|e| format!("rejected: {e}"))?;
        let s = sonic_rs::to_string(&v).map_err(|e| format!("to_string failed: {e}"))?;
        let sref = refjson::parse_doc(s.as_bytes(), RMode::Decode)
            .map_err(|r| format!("serialized text {:?} is not well-formed: {:?}@{}", s, r.reason, r.at))?;
        let (mut a, mut b) = (String::new(), String::new());
        if arb {
            lit_dump(&root, doc, sort, &mut a);
            lit_dump(&sref, s.as_bytes(), false, &mut b);
        } else {
            norm_dump(&root, sort, &mut a);
            norm_dump(&sref, false, &mut b);
        }
        if a != b {
            return Err(format!("serialized text {:?} denotes {} but the source denotes {}", s, b, a));
        }
        // fixpoint
        let v2: Value = sonic_rs::from_str(&s).map_err(|e| format!("re-parse of {:?} rejected: {e}", s))?;
        let s2 = sonic_rs::to_string(&v2).map_err(|e| format!("to_string failed: {e}"))?;
        if s2 != s {
            return Err(format!("not a fixpoint: {:?} then {:?}", s, s2));
        }
        if !has_dup(&root) && v2 != v {
            return Err(format!("re-parsed DOM of {:?} is not equal to the original DOM", s));
        }
        // Display == to_string == to_vec
        let d = format!("{}", v);
        let tv = sonic_rs::to_vec(&v).map_err(|e| format!("to_vec failed: {e}"))?;
        if d != s || tv != s.as_bytes() {
            return Err(format!("Display {:?} / to_vec {:?} / to_string {:?} disagree", d, String::from_utf8_lossy(&tv), s));
        }
        // pretty denotes the same
        let p = sonic_rs::to_string_pretty(&v).map_err(|e| format!("to_string_pretty failed: {e}"))?;
        let pref = refjson::parse_doc(p.as_bytes(), RMode::Decode)
            .map_err(|r| format!("pretty text {:?} is not well-formed: {:?}@{}", p, r.reason, r.at))?;
        let mut c = String::new();
        if arb {
            lit_dump(&pref, p.as_bytes(), false, &mut c);
        } else {
            norm_dump(&pref, false, &mut c);
        }
        if c != b {
            return Err(format!("pretty text {:?} denotes {} vs compact {}", p, c, b));
        }
        let p2 = sonic_rs::to_string_pretty(&sonic_rs::from_str::<Value>(&p).map_err(|e| e.to_string())?)
            .map_err(|e| e.to_string())?;
        if p2 != p {
            return Err(format!("pretty not a fixpoint: {:?} then {:?}", p, p2));
        }
        // raw-number mode reproduces every literal verbatim
        let mut de = Deserializer::from_slice(doc).use_rawnumber();
        let vr: Value = de.deserialize().map_err(|e| format!("rawnumber parse rejected: {e}"))?;
        let sr = sonic_rs::to_string(&vr).map_err(|e| e.to_string())?;
        let srref = refjson::parse_doc(sr.as_bytes(), RMode::Decode)
            .map_err(|r| format!("rawnumber text {:?} not well-formed: {:?}@{}", sr, r.reason, r.at))?;
        let (mut x, mut y) = (String::new(), String::new());
        lit_dump(&root, doc, sort, &mut x);
        lit_dump(&srref, sr.as_bytes(), false, &mut y);
        if x != y {
            return Err(format!("raw-number mode: {:?} denotes {} vs source {}", sr, y, x));
        }
        // the same for values that are not the whole input (element of a typed Vec, later stream
        // document), serialized after their input buffer has been overwritten and freed
        for raw in [false, true] {
            let mut w = b"[7.50,".to_vec();
            w.extend_from_slice(doc);
            w.extend_from_slice(b"]\n");
            w.extend_from_slice(doc);
            let (el, st): (Value, Value) = scribbled(&w, |buf| {
                let de = Deserializer::from_slice(buf);
                let mut de = if raw { de.use_rawnumber() } else { de };
                let mut vs: Vec<Value> = de.deserialize().map_err(|e| format!("embedded parse rejected: {e}"))?;
                let el = vs.pop().ok_or("empty Vec")?;
                let st: Value = de.deserialize().map_err(|e| format!("second document rejected: {e}"))?;
                Ok((el, st))
            })?;
            for (what, v) in [("element of Vec<Value>", &el), ("second document", &st)] {
                let t = sonic_rs::to_string(v).map_err(|e| e.to_string())?;
                let tref = refjson::parse_doc(t.as_bytes(), RMode::Decode).map_err(|r| format!("{what} (raw={raw}): text {:?} not well-formed: {:?}@{}", t, r.reason, r.at))?;
                let (mut x, mut y) = (String::new(), String::new());
                // (a hand-built Deserializer is in raw-number mode only when asked to: the
                // arbitrary_precision feature configures the from_* functions)
                if raw {
                    lit_dump(&root, doc, sort, &mut x);
                    lit_dump(&tref, t.as_bytes(), false, &mut y);
                } else {
                    norm_dump(&root, sort, &mut x);
                    norm_dump(&tref, false, &mut y);
                }
                if x != y {
                    return Err(format!("{what} (raw-number mode {raw}) serialized after its input was freed: {:?} denotes {} vs source {}", t, y, x));
                }
            }
        }
        Ok(())
    });
    ctx.state();
    ctx.calls(13);
    match r {
        Ok(Ok(())) => ctx.outcome("lossless+fixpoint"),
        Ok(Err(m)) => viol(ctx, "roundtrip", "parse->to_string", doc, m),
        Err(p) => viol(ctx, "panic", "parse->to_string", doc, p),
    }
    let _ = v_is_used;
    ctx.sample(|| json!({"doc": String::from_utf8_lossy(doc)}));
}
#[allow(non_upper_case_globals)]
const v_is_used: () = ();

fn docs_family(name: &str, docs: Vec<String>, mode: Mode, framings: &'static [Framing]) -> Family {
    Family::of_vec(name, docs, move |d, ctx| match mode {
        Mode::Tree => check_tree(ctx, d.as_bytes(), framings),
        Mode::RoundTrip => check_roundtrip(ctx, d.as_bytes()),
    })
}

pub fn alignment_docs() -> Vec<String> {
    // strings and numbers of every length 0..140 inside a small document
    let mut v = vec![];
    for n in 0..140usize {
        v.push(format!("[\"{}\",{{\"{}\":\"x\\n{}\"}},1]", "s".repeat(n), "k".repeat(n), "t".repeat(n)));
        v.push(format!("{{\"a\":{},\"b\":[0.{}1,-{}e-{}]}}", "7".repeat(n.min(19).max(1)), "0".repeat(n), "9".repeat(n.max(1)), n));
    }
    v
}

pub fn families(tier: Tier, _variant: &str, mode: Mode) -> Vec<Family> {
    let q = tier == Tier::Quick;
    let full = gen::FRAMINGS_FULL;
    let f3 = gen::FRAMINGS_3;
    let mut v = vec![];
    let g = DocGen { leaves: gen::c03_leaves(), keys: gen::c03_keys(), style: gen::COMPACT, allow_dup_keys: true };
    v.push(docs_family("c03-leaves<=3nodes", g.docs(3), mode, if q { f3 } else { full }));
    for (i, st) in gen::STYLES.iter().enumerate() {
        let g = DocGen {
            leaves: gen::small_leaves(),
            keys: gen::strs(&["\"a\"", "\"b\\u0062\""]),
            style: st.clone(),
            allow_dup_keys: true,
        };
        let n = if q { 4 } else { 5 };
        if q && i >= 2 {
            continue;
        }
        v.push(docs_family(&format!("small-leaves<={}nodes/style{}", n, i), g.docs(n), mode, f3));
    }
    v.push(docs_family("alignment", alignment_docs(), mode, if q { f3 } else { full }));
    // every BMP \u escape (surrogates are rejected by the reference and skipped)
    v.push(Family::new("all-u-escapes", 65536, move |idx, ctx| {
        let d = format!("[\"\\u{:04x}\",{{\"k\\u{:04X}\":0}}]", idx, idx);
        match mode {
            Mode::Tree => check_tree(ctx, d.as_bytes(), gen::FRAMINGS_2),
            Mode::RoundTrip => check_roundtrip(ctx, d.as_bytes()),
        }
    }));
    // a whitespace run of every length 0..N (all four whitespace bytes) at every gap of a document
    // whose tokens change meaning when their first byte is lost
    {
        let mut docs = crate::props::c02::ws_run_docs(if q { 140 } else { 300 });
        for run in 0..(if q { 140usize } else { 300 }) {
            let ws = " ".repeat(run);
            docs.push(format!("[120,{ws}-57,{ws}\"ab\",{ws}[{ws}-1.5e3{ws}]{ws},{{\"k\":{ws}12{ws}}}]").into_bytes());
        }
        v.push(Family::of_vec("whitespace-runs", docs, move |d, ctx| match mode {
            Mode::Tree => check_tree(ctx, d, &gen::FRAMINGS_2[..1]),
            Mode::RoundTrip => check_roundtrip(ctx, d),
        }));
    }
    // number literals at the edges of the f64 range, bare and embedded
    {
        let mut docs: Vec<Vec<u8>> = vec![];
        for n in gen::range_edge_numbers() {
            docs.push(n.clone().into_bytes());
            docs.push(format!("[{n},{{\"k\":{n}}}]").into_bytes());
        }
        v.push(Family::of_vec("range-edge-numbers(accepted only)", docs, move |d, ctx| match mode {
            Mode::Tree => check_tree(ctx, d, gen::FRAMINGS_2),
            Mode::RoundTrip => check_roundtrip(ctx, d),
        }));
    }
    // sequences of documents parsed one after the other on one fresh thread (the thread-local
    // node buffer and scratch buffers are carried from one parse to the next): flat and nested
    // documents of ascending, descending and alternating sizes
    {
        let mut seqs: Vec<Vec<usize>> = vec![];
        seqs.push((1..=40).map(|i| i * 13).collect()); // ascending, ratio < 2
        seqs.push((1..=40).rev().map(|i| i * 13).collect());
        seqs.push(vec![300, 500, 700, 1100, 1200, 3000, 3100, 20_000, 30_000, 31_000, 7]);
        seqs.push((0..30).map(|i| if i % 2 == 0 { 5 } else { 200 + i * 37 }).collect());
        seqs.push(vec![1, 2, 3, 5, 8, 13, 21, 34, 55, 89, 144, 233, 255, 256, 257, 377, 511, 512, 513, 610, 987, 1597]);
        for shape in 0..3usize {
            let ss = seqs.clone();
            v.push(Family::of_vec(&format!("document-sequences-on-one-thread/shape{shape}"), ss, move |sizes, ctx| {
                let sizes = sizes.clone();
                let r = std::thread::Builder::new()
                    .stack_size(64 << 20)
                    .spawn(move || {
                        let mut bad: Vec<String> = vec![];
                        for (k, n) in sizes.iter().enumerate() {
                            // (objects: the reference comparison looks every key up, keep them smaller)
                            let n = &(if shape == 1 { (*n).min(2500) } else { *n });
                            let doc = match shape {
                                0 => format!("[{}]", (0..*n).map(|i| (i % 97).to_string()).collect::<Vec<_>>().join(",")),
                                1 => format!("{{{}}}", (0..*n).map(|i| format!("\"k{i}\":[{i},\"v\\n{i}\"]")).collect::<Vec<_>>().join(",")),
                                _ => format!("[{}]", (0..*n).map(|i| format!("{{\"a\":{{\"b\":[{i}]}}}}")).collect::<Vec<_>>().join(" , ")),
                            };
                            let root = refjson::parse_doc(doc.as_bytes(), RMode::Decode).expect("generated document");
                            let res = guard(|| match mode {
                                Mode::Tree => {
                                    let v: Value = sonic_rs::from_str(&doc).map_err(|e| format!("rejected: {}", e.to_string().lines().next().unwrap_or("")))?;
                                    walk::cmp_value(&v, &root, doc.as_bytes(), rawnum_default())?;
                                    // and through the copying parser (second stream document)
                                    let two = format!("0 {doc}");
                                    let mut st = Deserializer::from_str(&two).into_stream::<Value>();
                                    let _ = st.next();
                                    let w = st.next().ok_or("stream ended")?.map_err(|e| format!("rejected as stream document: {}", e.to_string().lines().next().unwrap_or("")))?;
                                    let n2 = refjson::parse_value_at(two.as_bytes(), 2, RMode::Decode).map_err(|_| "reference")?;
                                    walk::cmp_value(&w, &n2, two.as_bytes(), rawnum_default())
                                }
                                Mode::RoundTrip => {
                                    let v: Value = sonic_rs::from_str(&doc).map_err(|e| format!("rejected: {}", e.to_string().lines().next().unwrap_or("")))?;
                                    let s = sonic_rs::to_string(&v).map_err(|e| e.to_string())?;
                                    let again = refjson::parse_doc(s.as_bytes(), RMode::Decode).map_err(|r| format!("output not well-formed: {:?}", r.reason))?;
                                    // (member order is the business of the other families: the
                                    // sort_keys build reorders)
                                    let (mut a, mut b) = (String::new(), String::new());
                                    norm_dump(&root, true, &mut a);
                                    norm_dump(&again, true, &mut b);
                                    if a != b {
                                        return Err("serialized text denotes another tree".to_string());
                                    }
                                    Ok(())
                                }
                            });
                            match res {
                                Ok(Ok(())) => {}
                                Ok(Err(m)) => bad.push(format!("document {k} of the sequence ({n} members): {m}")),
                                Err(p) => bad.push(format!("document {k} of the sequence ({n} members): panic {p}")),
                            }
                        }
                        bad
                    })
                    .unwrap()
                    .join();
                ctx.state();
                ctx.calls(sizes_len_hint());
                ctx.nontrivial();
                match r {
                    Ok(bad) if bad.is_empty() => ctx.outcome("equal"),
                    Ok(bad) => {
                        for m in bad.into_iter().take(3) {
                            ctx.violation("sequence-on-one-thread", json!({"shape": shape, "mismatch": m}));
                        }
                    }
                    Err(_) => ctx.violation("panic/sequence-thread", json!({"shape": shape})),
                }
            }));
        }
    }
    // corpus documents of the repository (long, realistic: beyond the length of every sweep)
    {
        let docs: Vec<(String, Vec<u8>)> = gen::corpus();
        v.push(Family::of_vec("corpus-files", docs, move |(_, d), ctx| match mode {
            Mode::Tree => check_tree(ctx, d, gen::FRAMINGS_2),
            Mode::RoundTrip => check_roundtrip(ctx, d),
        }));
    }
    // every accepted document of the C02 spaces
    {
        let k = gen::T16.len() as u64;
        let l = if q { 4 } else { 5 };
        v.push(Family::new("t16-full(accepted only)", gen::seq_count(k, l), move |idx, ctx| {
            let mut seq = vec![];
            gen::nth_seq(k, l, idx, &mut seq);
            let mut d = vec![];
            gen::concat(gen::T16, &seq, &mut d);
            match mode {
                Mode::Tree => check_tree(ctx, &d, gen::FRAMINGS_2),
                Mode::RoundTrip => check_roundtrip(ctx, &d),
            }
        }));
        let k = gen::N10.len() as u64;
        let l = if q { 5 } else { 7 };
        v.push(Family::new("n10(accepted only)", gen::seq_count(k, l), move |idx, ctx| {
            let mut seq = vec![];
            gen::nth_seq(k, l, idx, &mut seq);
            let mut d = vec![];
            gen::concat(gen::N10, &seq, &mut d);
            match mode {
                Mode::Tree => check_tree(ctx, &d, gen::FRAMINGS_2),
                Mode::RoundTrip => check_roundtrip(ctx, &d),
            }
        }));
        let k = gen::B11.len() as u64;
        let l = if q { 4 } else { 6 };
        v.push(Family::new("b11-string(accepted only)", gen::seq_count(k, l), move |idx, ctx| {
            let mut seq = vec![];
            gen::nth_seq(k, l, idx, &mut seq);
            let mut d = vec![b'"'];
            let mut body = vec![];
            gen::concat(gen::B11, &seq, &mut body);
            d.extend_from_slice(&body);
            d.push(b'"');
            match mode {
                Mode::Tree => check_tree(ctx, &d, gen::FRAMINGS_2),
                Mode::RoundTrip => check_roundtrip(ctx, &d),
            }
        }));
    }
    v
}
