//! C09 - string literals decode exactly, at every length and alignment.

use std::{borrow::Cow, collections::HashMap};

use serde::Deserialize;
use serde_json::json;
use sonic_rs::{Deserializer, JsonContainerTrait, JsonValueTrait, LazyValue, OwnedLazyValue, Value};

use crate::{
    engine::{guard, show, Ctx, Family, Tier},
    gen::{self, Framing},
    refjson::{self, Kind, Mode as RMode},
};

#[derive(Debug, PartialEq, Clone)]
pub enum Obs {
    Ok { s: String, borrowed: Option<bool> },
    Err(String),
}

#[derive(Deserialize)]
struct SV {
    v: Value,
}
#[derive(Deserialize)]
struct SS {
    v: String,
}
#[derive(Deserialize)]
struct SCow<'a> {
    #[serde(borrow)]
    v: Cow<'a, str>,
}
#[derive(Deserialize)]
struct SRef<'a> {
    v: &'a str,
}
#[derive(Deserialize)]
struct SLazy<'a> {
    #[serde(borrow)]
    v: LazyValue<'a>,
}

#[derive(Clone, Copy, Debug, PartialEq, Eq)]
pub enum Dec {
    RootValue,      // in-place padded
    RootString,     // copying
    RootStr,        // borrowing &str
    RootCow,        // Cow<str> (serde's Cow is always Owned without borrow attr) - via struct below
    FieldValue,     // copy parser
    FieldString,
    FieldCow,
    FieldStr,
    KeyInValue,     // {"<body>":1} parsed into Value
    KeyInValueCopy, // [{"<body>":1}] second doc of a stream (copy parser)
    MapKey,         // HashMap<String,u8>
    LazyRoot,       // from_str<LazyValue>.as_str()
    LazyField,
    OwnedLazyRoot,
    GetLazy,        // get(...).as_str()
    GetUncheckedLazy,
    OwnedLazyChild, // OwnedLazyValue of [..] then get(0).as_str()
    SkipPastChecked,   // [lit,"tail"]: get(..,[1]) must find "tail" behind the literal
    SkipPastUnchecked, // same through get_unchecked (well-formed input only)
    SkipPastObjUnchecked, // {"s":lit,"v":"tail"} get_unchecked(["v"])
    /// the literal is decoded right after another string of the same document went through the
    /// decoder's scratch buffer (state carried from one string to the next)
    DeValue,             // Deserializer::from_slice(..).deserialize::<Value>() (first value, in place)
    StreamFirstValue,    // first document of into_stream::<Value>()
    AfterEscString,      // ["k\tv",lit] as (String, String)
    AfterEscStreamValue, // 0 ["k\tv",lit] second stream document as Value (copy parser)
    LossyValue,
    LossyString,
    LossyStreamValue,
    LossyKey,
    LossyAfterEscString,      // ["k\tv",lit] as (String, String), lossy
    LossyAfterRepairedString, // ["<0xff>",lit] as (String, String), lossy
    LossyAfterEscStreamValue, // 0 ["k\tv",lit] second stream document as Value, lossy
    LossyMiddleStr,           // ["r<0xff>s",lit,"t<0xfe>"] as (String, &str, String), lossy: an accepted invalid literal before, another invalid byte behind
    LossyStreamThenNumber,    // lit 7: the literal is the first stream document (repaired in a copy), the next document must still be found
}

pub const STRICT: &[Dec] = &[
    Dec::RootValue,
    Dec::RootString,
    Dec::RootStr,
    Dec::FieldValue,
    Dec::FieldString,
    Dec::FieldCow,
    Dec::FieldStr,
    Dec::KeyInValue,
    Dec::KeyInValueCopy,
    Dec::MapKey,
    Dec::LazyRoot,
    Dec::LazyField,
    Dec::OwnedLazyRoot,
    Dec::GetLazy,
    Dec::GetUncheckedLazy,
    Dec::OwnedLazyChild,
    Dec::SkipPastChecked,
    Dec::SkipPastUnchecked,
    Dec::SkipPastObjUnchecked,
    Dec::AfterEscString,
    Dec::AfterEscStreamValue,
    Dec::DeValue,
    Dec::StreamFirstValue,
];
pub const LOSSY: &[Dec] = &[
    Dec::LossyValue,
    Dec::LossyString,
    Dec::LossyStreamValue,
    Dec::LossyKey,
    Dec::LossyAfterEscString,
    Dec::LossyAfterRepairedString,
    Dec::LossyAfterEscStreamValue,
    Dec::LossyStreamThenNumber,
    Dec::LossyMiddleStr,
];

fn e<T>(r: sonic_rs::Result<T>) -> Result<T, Obs> {
    r.map_err(|e| Obs::Err(e.to_string().lines().next().unwrap_or("").to_string()))
}

/// text the decoder sees for a literal `lit` (= quote body quote)
pub fn wrap(dec: Dec, lit: &[u8], out: &mut Vec<u8>) {
    out.clear();
    match dec {
        Dec::RootValue | Dec::RootString | Dec::RootStr | Dec::RootCow | Dec::LazyRoot | Dec::OwnedLazyRoot
        | Dec::LossyValue | Dec::LossyString | Dec::DeValue | Dec::StreamFirstValue => out.extend_from_slice(lit),
        Dec::FieldValue | Dec::FieldString | Dec::FieldCow | Dec::FieldStr | Dec::LazyField | Dec::GetLazy
        | Dec::GetUncheckedLazy => {
            out.extend_from_slice(b"{\"v\":");
            out.extend_from_slice(lit);
            out.extend_from_slice(b"}");
        }
        Dec::KeyInValue | Dec::MapKey | Dec::LossyKey => {
            out.extend_from_slice(b"{");
            out.extend_from_slice(lit);
            out.extend_from_slice(b":1}");
        }
        Dec::KeyInValueCopy => {
            out.extend_from_slice(b"0 {");
            out.extend_from_slice(lit);
            out.extend_from_slice(b":1}");
        }
        Dec::OwnedLazyChild => {
            out.extend_from_slice(b"[");
            out.extend_from_slice(lit);
            out.extend_from_slice(b",0]");
        }
        Dec::SkipPastChecked | Dec::SkipPastUnchecked => {
            out.extend_from_slice(b"[");
            out.extend_from_slice(lit);
            out.extend_from_slice(b",\"tail]\\\"\",1]");
        }
        Dec::SkipPastObjUnchecked => {
            out.extend_from_slice(b"{\"s\":");
            out.extend_from_slice(lit);
            out.extend_from_slice(b",\"v\":\"tail]\\\"\",\"w\":1}");
        }
        Dec::LossyStreamValue => {
            out.extend_from_slice(b"0 ");
            out.extend_from_slice(lit);
        }
        Dec::LossyStreamThenNumber => {
            out.extend_from_slice(lit);
            out.extend_from_slice(b" 7");
        }
        Dec::LossyMiddleStr => {
            out.extend_from_slice(b"[\"r\xffs\",");
            out.extend_from_slice(lit);
            out.extend_from_slice(b",\"t\xfe\"]");
        }
        Dec::AfterEscString | Dec::LossyAfterEscString => {
            out.extend_from_slice(b"[\"k\\tv\",");
            out.extend_from_slice(lit);
            out.extend_from_slice(b"]");
        }
        Dec::LossyAfterRepairedString => {
            out.extend_from_slice(b"[\"r\xffs\",");
            out.extend_from_slice(lit);
            out.extend_from_slice(b"]");
        }
        Dec::AfterEscStreamValue | Dec::LossyAfterEscStreamValue => {
            out.extend_from_slice(b"0 [\"k\\tv\",");
            out.extend_from_slice(lit);
            out.extend_from_slice(b"]");
        }
    }
}

fn is_borrowed_from(s: &str, text: &[u8]) -> bool {
    let p = s.as_ptr() as usize;
    let b = text.as_ptr() as usize;
    s.is_empty() || (p >= b && p + s.len() <= b + text.len())
}

pub fn decode(dec: Dec, text: &[u8]) -> Option<Obs> {
    let as_s = std::str::from_utf8(text).ok();
    let own = |s: &str| Obs::Ok { s: s.to_string(), borrowed: None };
    let r: Result<Obs, Obs> = (|| {
        Ok(match dec {
            Dec::RootValue => {
                let v: Value = e(sonic_rs::from_slice(text))?;
                own(v.as_str().ok_or(Obs::Err("not a string".into()))?)
            }
            Dec::RootString => {
                let v: String = e(sonic_rs::from_slice(text))?;
                own(&v)
            }
            Dec::RootStr => {
                let v: &str = e(sonic_rs::from_slice(text))?;
                Obs::Ok { s: v.to_string(), borrowed: Some(is_borrowed_from(v, text)) }
            }
            Dec::RootCow => return Err(Obs::Err("unused".into())),
            Dec::FieldValue => {
                let v: SV = e(sonic_rs::from_slice(text))?;
                own(v.v.as_str().ok_or(Obs::Err("not a string".into()))?)
            }
            Dec::FieldString => {
                let v: SS = e(sonic_rs::from_slice(text))?;
                own(&v.v)
            }
            Dec::FieldCow => {
                let v: SCow = e(sonic_rs::from_slice(text))?;
                let b = matches!(v.v, Cow::Borrowed(_));
                if b && !is_borrowed_from(&v.v, text) {
                    return Err(Obs::Err("Cow::Borrowed does not point into the input".into()));
                }
                Obs::Ok { s: v.v.to_string(), borrowed: Some(b) }
            }
            Dec::FieldStr => {
                let v: SRef = e(sonic_rs::from_slice(text))?;
                Obs::Ok { s: v.v.to_string(), borrowed: Some(is_borrowed_from(v.v, text)) }
            }
            Dec::KeyInValue => {
                let v: Value = e(sonic_rs::from_slice(text))?;
                let o = v.as_object().ok_or(Obs::Err("not an object".into()))?;
                let (k, _) = o.iter().next().ok_or(Obs::Err("empty object".into()))?;
                own(k)
            }
            Dec::KeyInValueCopy => {
                let mut st = Deserializer::from_slice(text).into_stream::<Value>();
                let _ = st.next();
                let v = e(st.next().ok_or(Obs::Err("stream ended".into()))?)?;
                let o = v.as_object().ok_or(Obs::Err("not an object".into()))?;
                let (k, _) = o.iter().next().ok_or(Obs::Err("empty object".into()))?;
                own(k)
            }
            Dec::MapKey => {
                let v: HashMap<String, u8> = e(sonic_rs::from_slice(text))?;
                own(v.keys().next().ok_or(Obs::Err("empty map".into()))?)
            }
            Dec::LazyRoot => {
                let v: LazyValue = e(sonic_rs::from_slice(text))?;
                let s = v.as_str().ok_or(Obs::Err("as_str() is None".into()))?;
                // ask twice: the second answer comes from the cache
                if v.as_str() != Some(s) {
                    return Err(Obs::Err("as_str() differs on second call".into()));
                }
                own(s)
            }
            Dec::LazyField => {
                let v: SLazy = e(sonic_rs::from_slice(text))?;
                own(v.v.as_str().ok_or(Obs::Err("as_str() is None".into()))?)
            }
            Dec::OwnedLazyRoot => {
                let v: OwnedLazyValue = e(sonic_rs::from_slice(text))?;
                own(v.as_str().ok_or(Obs::Err("as_str() is None".into()))?)
            }
            Dec::GetLazy => {
                let v = e(sonic_rs::get_from_slice(text, &["v"]))?;
                own(v.as_str().ok_or(Obs::Err("as_str() is None".into()))?)
            }
            Dec::GetUncheckedLazy => {
                // only sound on well-formed UTF-8 input; caller filters
                let v = e(unsafe { sonic_rs::get_from_slice_unchecked(text, &["v"]) })?;
                own(v.as_str().ok_or(Obs::Err("as_str() is None".into()))?)
            }
            Dec::OwnedLazyChild => {
                let v: OwnedLazyValue = e(sonic_rs::from_slice(text))?;
                let c = v.get(0).ok_or(Obs::Err("get(0) is None".into()))?;
                own(c.as_str().ok_or(Obs::Err("as_str() is None".into()))?)
            }
            Dec::SkipPastChecked => {
                let v = e(sonic_rs::get_from_slice(text, &[1]))?;
                own(v.as_str().ok_or(Obs::Err("as_str() is None".into()))?)
            }
            Dec::SkipPastUnchecked => {
                let v = e(unsafe { sonic_rs::get_from_slice_unchecked(text, &[1]) })?;
                own(v.as_str().ok_or(Obs::Err("as_str() is None".into()))?)
            }
            Dec::SkipPastObjUnchecked => {
                let v = e(unsafe { sonic_rs::get_from_slice_unchecked(text, &["v"]) })?;
                own(v.as_str().ok_or(Obs::Err("as_str() is None".into()))?)
            }
            Dec::LossyValue => {
                let mut de = Deserializer::from_slice(text).utf8_lossy();
                let v: Value = e(de.deserialize())?;
                own(v.as_str().ok_or(Obs::Err("not a string".into()))?)
            }
            Dec::LossyString => {
                let mut de = Deserializer::from_slice(text).utf8_lossy();
                let v: String = e(de.deserialize())?;
                own(&v)
            }
            Dec::LossyStreamValue => {
                let mut st = Deserializer::from_slice(text).utf8_lossy().into_stream::<Value>();
                let _ = st.next();
                let v = e(st.next().ok_or(Obs::Err("stream ended".into()))?)?;
                own(v.as_str().ok_or(Obs::Err("not a string".into()))?)
            }
            Dec::LossyKey => {
                let mut de = Deserializer::from_slice(text).utf8_lossy();
                let v: HashMap<String, u8> = e(de.deserialize())?;
                own(v.keys().next().ok_or(Obs::Err("empty map".into()))?)
            }
            Dec::DeValue => {
                let mut de = Deserializer::from_slice(text);
                let v: Value = e(de.deserialize())?;
                own(v.as_str().ok_or(Obs::Err("not a string".into()))?)
            }
            Dec::StreamFirstValue => {
                let mut st = Deserializer::from_slice(text).into_stream::<Value>();
                let v = e(st.next().ok_or(Obs::Err("stream ended".into()))?)?;
                own(v.as_str().ok_or(Obs::Err("not a string".into()))?)
            }
            Dec::LossyMiddleStr => {
                let mut de = Deserializer::from_slice(text).utf8_lossy();
                let v: (String, &str, String) = e(de.deserialize())?;
                if v.0 != "r\u{fffd}s" || v.2 != "t\u{fffd}" {
                    return Err(Obs::Err(format!("neighbours decoded as {:?} / {:?}", v.0, v.2)));
                }
                Obs::Ok { s: v.1.to_string(), borrowed: Some(is_borrowed_from(v.1, text)) }
            }
            Dec::LossyStreamThenNumber => {
                let mut st = Deserializer::from_slice(text).utf8_lossy().into_stream::<Value>();
                let v = e(st.next().ok_or(Obs::Err("stream ended".into()))?)?;
                let s = v.as_str().ok_or(Obs::Err("not a string".into()))?.to_string();
                match st.next() {
                    Some(Ok(n)) if n.as_u64() == Some(7) => {}
                    other => return Err(Obs::Err(format!("the document after the string reads {:?}", other.map(|r| r.map(|v| v.to_string()).map_err(|e| e.to_string().lines().next().unwrap_or("").to_string()))))),
                }
                own(&s)
            }
            Dec::AfterEscString => {
                let v: (String, String) = e(sonic_rs::from_slice(text))?;
                if v.0 != "k\tv" {
                    return Err(Obs::Err(format!("first string of the pair decoded as {:?}", v.0)));
                }
                own(&v.1)
            }
            Dec::LossyAfterEscString | Dec::LossyAfterRepairedString => {
                let mut de = Deserializer::from_slice(text).utf8_lossy();
                let v: (String, String) = e(de.deserialize())?;
                let want = if dec == Dec::LossyAfterEscString { "k\tv" } else { "r\u{fffd}s" };
                if v.0 != want {
                    return Err(Obs::Err(format!("first string of the pair decoded as {:?}", v.0)));
                }
                own(&v.1)
            }
            Dec::AfterEscStreamValue | Dec::LossyAfterEscStreamValue => {
                let de = Deserializer::from_slice(text);
                let de = if dec == Dec::LossyAfterEscStreamValue { de.utf8_lossy() } else { de };
                let mut st = de.into_stream::<Value>();
                let _ = st.next();
                let v = e(st.next().ok_or(Obs::Err("stream ended".into()))?)?;
                let a = v.as_array().ok_or(Obs::Err("not an array".into()))?;
                if a.len() != 2 || a[0].as_str() != Some("k\tv") {
                    return Err(Obs::Err(format!("unexpected shape {}", v)));
                }
                own(a[1].as_str().ok_or(Obs::Err("not a string".into()))?)
            }
        })
    })();
    let _ = as_s;
    Some(match r {
        Ok(o) => o,
        Err(o) => o,
    })
}

/// expected observation for decoder `dec` on literal `lit`
pub fn expected(dec: Dec, lit: &[u8]) -> Option<Result<(String, Option<bool>), refjson::Reason>> {
    let lossy = LOSSY.contains(&dec);
    // the literal must be exactly one string token, otherwise the wrapper document is judged as a
    // whole by the reference
    let mut text = vec![];
    wrap(dec, lit, &mut text);
    let mode = if lossy { RMode::Lossy } else { RMode::Decode };
    // locate the string node inside the wrapper
    let root = match dec {
        Dec::KeyInValueCopy | Dec::LossyStreamValue | Dec::AfterEscStreamValue | Dec::LossyAfterEscStreamValue => {
            let first = refjson::parse_value_at(&text, 0, mode);
            match first {
                Ok(n) => {
                    let r = refjson::parse_value_at(&text, n.end, mode);
                    match r {
                        Ok(n2) => {
                            // nothing may follow (we built the text); if something does, the literal
                            // ended early
                            let mut i = n2.end;
                            while i < text.len() && refjson::is_ws(text[i]) {
                                i += 1;
                            }
                            if i < text.len() {
                                // stream entry points do not look further: the second value is what
                                // they return
                            }
                            Ok(n2)
                        }
                        Err(r) => Err(r),
                    }
                }
                Err(r) => Err(r),
            }
        }
        // entry points that do not look behind the value they return
        Dec::GetLazy | Dec::GetUncheckedLazy => refjson::parse_value_at(&text, 5, mode),
        Dec::LossyValue
        | Dec::LossyString
        | Dec::LossyKey
        | Dec::LossyAfterEscString
        | Dec::LossyAfterRepairedString
        | Dec::DeValue
        | Dec::StreamFirstValue
        | Dec::LossyMiddleStr
        | Dec::LossyStreamThenNumber => {
            refjson::parse_value_at(&text, 0, mode)
        }
        _ => refjson::parse_doc(&text, mode),
    };
    if matches!(dec, Dec::SkipPastChecked | Dec::SkipPastUnchecked | Dec::SkipPastObjUnchecked) {
        // judged on the whole wrapper: only when it is well-formed and has the intended shape
        let Ok(r) = refjson::parse_doc(&text, RMode::Decode) else {
            return if dec == Dec::SkipPastChecked {
                // a malformed literal in front of the target must make the checked get fail, unless
                // the wrapper is malformed only behind the target
                match refjson::parse_value_at(&text, 1, RMode::Grammar) {
                    Err(rj) => Some(Err(rj.reason)),
                    Ok(_) => None,
                }
            } else {
                None
            };
        };
        let target = match &r.kind {
            Kind::Arr(a) if a.len() == 3 => &a[1],
            Kind::Obj(m) if m.len() == 3 && m[1].0.key_str() == "v" && m[0].0.key_str() == "s" => &m[1].1,
            _ => return None,
        };
        return match &target.kind {
            Kind::Str { val, .. } => Some(Ok((val.clone(), None))),
            _ => None,
        };
    }
    // "literal, then 7": only when the literal is one token (a body containing a quote ends early)
    if dec == Dec::LossyStreamThenNumber {
        if let Ok(n) = refjson::parse_value_at(&text, 0, mode) {
            if n.end + 2 != text.len() {
                return None;
            }
        }
    }
    // the unchecked get is only specified on well-formed input
    if dec == Dec::GetUncheckedLazy && refjson::parse_doc(&text, RMode::Decode).is_err() {
        return None;
    }
    // skip-only decoders accept grammar-valid text whose \u escapes do not decode; as_str() then
    // has no value: the observation is an error either way
    let root = match root {
        Ok(r) => r,
        Err(r) => return Some(Err(r.reason)),
    };
    let node = match (&root.kind, dec) {
        (Kind::Str { .. }, Dec::GetLazy | Dec::GetUncheckedLazy) => &root,
        (Kind::Str { .. }, d)
            if !matches!(
                d,
                Dec::FieldValue
                    | Dec::FieldString
                    | Dec::FieldCow
                    | Dec::FieldStr
                    | Dec::LazyField
                    | Dec::KeyInValue
                    | Dec::MapKey
                    | Dec::LossyKey
                    | Dec::KeyInValueCopy
                    | Dec::OwnedLazyChild
                    | Dec::AfterEscString
                    | Dec::AfterEscStreamValue
                    | Dec::LossyAfterEscString
                    | Dec::LossyAfterRepairedString
                    | Dec::LossyAfterEscStreamValue
                    | Dec::LossyMiddleStr
            ) =>
        {
            &root
        }
        (Kind::Obj(m), Dec::KeyInValue | Dec::MapKey | Dec::LossyKey | Dec::KeyInValueCopy) => {
            if m.len() != 1 {
                return Some(Err(refjson::Reason::Unexpected));
            }
            &m[0].0
        }
        (Kind::Obj(m), _) => {
            if m.len() != 1 || m[0].0.key_str() != "v" {
                return Some(Err(refjson::Reason::Unexpected));
            }
            &m[0].1
        }
        (Kind::Arr(a), Dec::OwnedLazyChild) => {
            if a.len() != 2 {
                return Some(Err(refjson::Reason::Unexpected));
            }
            &a[0]
        }
        (
            Kind::Arr(a),
            Dec::AfterEscString | Dec::AfterEscStreamValue | Dec::LossyAfterEscString | Dec::LossyAfterRepairedString | Dec::LossyAfterEscStreamValue,
        ) => {
            if a.len() != 2 {
                return Some(Err(refjson::Reason::Unexpected));
            }
            &a[1]
        }
        (Kind::Arr(a), Dec::LossyMiddleStr) => {
            if a.len() != 3 {
                return None;
            }
            &a[1]
        }
        _ => return Some(Err(refjson::Reason::Unexpected)),
    };
    let Kind::Str { val, has_esc } = &node.kind else {
        return Some(Err(refjson::Reason::Unexpected));
    };
    // the node must be the literal we put in (a body containing `",` etc. can change the shape)
    let borrowed = match dec {
        Dec::RootStr | Dec::FieldStr => {
            if *has_esc {
                return Some(Err(refjson::Reason::BadEscape)); // &str cannot hold a decoded copy
            }
            Some(true)
        }
        Dec::FieldCow => Some(!*has_esc),
        Dec::LossyMiddleStr => {
            // a &str target can only hold a literal that needs neither decoding nor repair
            if *has_esc || std::str::from_utf8(node.text(&text)).is_err() {
                return None;
            }
            Some(true)
        }
        _ => None,
    };
    Some(Ok((val.clone(), borrowed)))
}

pub fn check_literal(ctx: &mut Ctx, lit: &[u8], decs: &[&[Dec]], framings: &[Framing]) {
    let mut text0 = vec![];
    let mut text = vec![];
    let mut any_ok = false;
    for group in decs {
        for &dec in group.iter() {
            let Some(exp) = expected(dec, lit) else { continue };
            wrap(dec, lit, &mut text0);
            for f in framings {
                gen::frame(&text0, *f, &mut text);
                let got = match guard(|| decode(dec, &text)) {
                    Ok(Some(o)) => o,
                    Ok(None) => continue,
                    Err(p) => {
                        ctx.state();
                        ctx.call();
                        ctx.violation(
                            &format!("panic/{:?}", dec),
                            json!({"decoder": format!("{:?}", dec), "input": show(&text), "panic": p}),
                        );
                        continue;
                    }
                };
                ctx.state();
                ctx.call();
                ctx.tr(|t| match &got {
                    Obs::Ok { s, borrowed } => {
                        t.bytes(&[1, borrowed.map(|b| b as u8 + 1).unwrap_or(0)]);
                        t.str(s);
                    }
                    Obs::Err(_) => t.bytes(&[0]),
                });
                match (&exp, &got) {
                    (Ok((val, bor)), Obs::Ok { s, borrowed }) => {
                        if s != val {
                            ctx.outcome("VIOL:wrong-decoding");
                            ctx.violation(
                                &format!("wrong-decoding/{:?}", dec),
                                json!({"decoder": format!("{:?}", dec), "framing": f.name(), "input": show(&text),
                                       "expected": val, "observed": s}),
                            );
                        } else if bor.is_some() && borrowed != bor {
                            ctx.outcome("VIOL:borrow-mismatch");
                            ctx.violation(
                                &format!("borrow-mismatch/{:?}", dec),
                                json!({"decoder": format!("{:?}", dec), "input": show(&text),
                                       "expected_borrowed": bor, "observed_borrowed": borrowed}),
                            );
                        } else {
                            any_ok = true;
                            ctx.outcome(match borrowed {
                                Some(true) => "decoded:borrowed",
                                Some(false) => "decoded:owned",
                                None => "decoded",
                            });
                        }
                    }
                    (Err(r), Obs::Err(_)) => {
                        ctx.outcome(match r {
                            refjson::Reason::LoneSurrogate => "rejected:surrogate",
                            refjson::Reason::BadHex => "rejected:hex",
                            refjson::Reason::BadEscape => "rejected:escape",
                            refjson::Reason::ControlInString => "rejected:control",
                            refjson::Reason::InvalidUtf8 => "rejected:utf8",
                            refjson::Reason::Eof => "rejected:eof",
                            _ => "rejected:other",
                        });
                    }
                    (Ok((val, _)), Obs::Err(m)) => {
                        ctx.outcome("VIOL:rejects-wellformed");
                        ctx.violation(
                            &format!("rejects-wellformed-literal/{:?}", dec),
                            json!({"decoder": format!("{:?}", dec), "framing": f.name(), "input": show(&text),
                                   "expected": val, "observed_error": m}),
                        );
                    }
                    (Err(r), Obs::Ok { s, .. }) => {
                        ctx.outcome("VIOL:accepts-malformed");
                        ctx.violation(
                            &format!("accepts-malformed-literal/{:?}/{:?}", dec, r),
                            json!({"decoder": format!("{:?}", dec), "framing": f.name(), "input": show(&text),
                                   "reference": format!("{:?}", r), "observed": s}),
                        );
                    }
                }
            }
        }
    }
    if any_ok {
        ctx.nontrivial();
    }
    ctx.sample(|| json!({"literal": String::from_utf8_lossy(lit)}));
}

fn lit_of(body: &[u8]) -> Vec<u8> {
    let mut l = Vec::with_capacity(body.len() + 2);
    l.push(b'"');
    l.extend_from_slice(body);
    l.push(b'"');
    l
}

pub const SPECIALS: &[&[u8]] = &[
    b"\\n",
    b"\\\"",
    b"\\\\",
    b"\\u00e9",
    b"\\ud83d\\ude00",
    "\u{e9}".as_bytes(),
    "\u{1f600}".as_bytes(),
    b"\x01",
    b"\"",
    b"\xff",
    b"\xe2\x82", // truncated multibyte
    b"\\ud800",
    b"\\",
];

pub fn families(tier: Tier, _variant: &str) -> Vec<Family> {
    let q = tier == Tier::Quick;
    let f2 = gen::FRAMINGS_2;
    let full = gen::FRAMINGS_FULL;
    let both: &'static [&'static [Dec]] = &[STRICT, LOSSY];
    let strict_only: &'static [&'static [Dec]] = &[STRICT];
    let mut v = vec![];
    // 1. every \uXXXX
    v.push(Family::new("all-u-escapes", 65536 * 2, move |idx, ctx| {
        let cp = idx / 2;
        let body = if idx % 2 == 0 { format!("\\u{:04x}", cp) } else { format!("a\\u{:04X}b", cp) };
        check_literal(ctx, &lit_of(body.as_bytes()), both, &f2[..1]);
    }));
    // 2. surrogate pairs: quick = every high x 16 boundary lows + 16 boundary highs x every low
    let lows: Vec<u32> = vec![0xdc00, 0xdc01, 0xdc7f, 0xdd00, 0xdfff, 0xdffe, 0xdbff, 0xe000, 0xd800, 0x0041, 0xffff, 0xdcff, 0xde00, 0xdf00, 0xdc80, 0xdfef];
    if q {
        let l2 = lows.clone();
        v.push(Family::new("surrogates/high x boundary-low", 1024 * 16, move |idx, ctx| {
            let hi = 0xd800 + (idx / 16) as u32;
            let lo = l2[(idx % 16) as usize];
            let body = format!("\\u{:04x}\\u{:04x}", hi, lo);
            check_literal(ctx, &lit_of(body.as_bytes()), both, &f2[..1]);
        }));
        let highs: Vec<u32> = vec![0xd800, 0xd801, 0xd83d, 0xdbff, 0xdbfe, 0xd900, 0xda00, 0xdb00];
        v.push(Family::new("surrogates/boundary-high x low", 8 * 1024, move |idx, ctx| {
            let hi = highs[(idx / 1024) as usize];
            let lo = 0xdc00 + (idx % 1024) as u32;
            let body = format!("x\\u{:04X}\\u{:04x}", hi, lo);
            check_literal(ctx, &lit_of(body.as_bytes()), both, &f2[..1]);
        }));
    } else {
        v.push(Family::new("surrogates/all-pairs", 1024 * 1024, move |idx, ctx| {
            let hi = 0xd800 + (idx / 1024) as u32;
            let lo = 0xdc00 + (idx % 1024) as u32;
            let body = format!("\\u{:04x}\\u{:04x}", hi, lo);
            check_literal(ctx, &lit_of(body.as_bytes()), strict_only, &f2[..1]);
        }));
    }
    // 3. every high surrogate followed by a non-low continuation
    let conts: Vec<&'static str> = vec!["", "a", "\\n", "\\u0041", "\\ud800", "\\uffff", "\\u", "\\udbff\\udc00", "abcdef", "abcdefg", "\\\\", "\u{e9}"];
    let nconts = conts.len() as u64;
    v.push(Family::new("high-surrogate x non-low-continuation", 2048 * nconts, move |idx, ctx| {
        let s = 0xd800 + (idx / nconts) as u32; // highs and lows (a lone low is also unpaired)
        let body = format!("\\u{:04x}{}", s, conts[(idx % nconts) as usize]);
        check_literal(ctx, &lit_of(body.as_bytes()), both, &f2[..1]);
    }));
    // 4. all B11 bodies
    {
        let k = gen::B11.len() as u64;
        let l = if q { 4 } else { 6 };
        v.push(Family::new("b11-bodies", gen::seq_count(k, l), move |idx, ctx| {
            let mut seq = vec![];
            gen::nth_seq(k, l, idx, &mut seq);
            let mut body = vec![];
            gen::concat(gen::B11, &seq, &mut body);
            check_literal(ctx, &lit_of(&body), both, f2);
        }));
    }
    // 5. positional sweep: one special at every position of runs of every length
    {
        let max_l: u64 = if q { 70 } else { 200 };
        let ns = SPECIALS.len() as u64;
        // cases: (L, pos<=L, special)
        let mut index: Vec<(u16, u16)> = vec![];
        for l in 0..=max_l {
            for p in 0..=l.min(130) {
                index.push((l as u16, p as u16));
            }
        }
        let n = index.len() as u64 * ns;
        let framings: &'static [Framing] = if q { gen::FRAMINGS_3 } else { full };
        v.push(Family::new("positional/one-special", n, move |idx, ctx| {
            let (l, p) = index[(idx / ns) as usize];
            let sp = SPECIALS[(idx % ns) as usize];
            let mut body: Vec<u8> = (0..p).map(|i| b'a' + (i % 26) as u8).collect();
            body.extend_from_slice(sp);
            body.extend((p..l).map(|i| b'A' + (i % 26) as u8));
            check_literal(ctx, &lit_of(&body), both, framings);
        }));
    }
    // 6. two specials
    {
        let max_l: u64 = if q { 40 } else { 70 };
        let sp2: Vec<&'static [u8]> = vec![b"\\n", b"\\\"", b"\\\\", b"\\u00e9", "\u{e9}".as_bytes(), b"\\ud83d\\ude00"];
        let ns = (sp2.len() * sp2.len()) as u64;
        let mut index: Vec<(u16, u16, u16)> = vec![];
        for l in 0..=max_l {
            for p in 0..=l {
                for p2 in p..=l {
                    if q && (p2 - p) > 3 && (p2 - p) % 8 != 0 {
                        continue;
                    }
                    index.push((l as u16, p as u16, p2 as u16));
                }
            }
        }
        let n = index.len() as u64 * ns;
        v.push(Family::new("positional/two-specials", n, move |idx, ctx| {
            let (l, p, p2) = index[(idx / ns) as usize];
            let k = (idx % ns) as usize;
            let (a, b) = (sp2[k / sp2.len()], sp2[k % sp2.len()]);
            let mut body: Vec<u8> = (0..p).map(|i| b'a' + (i % 26) as u8).collect();
            body.extend_from_slice(a);
            body.extend((p..p2).map(|i| b'A' + (i % 26) as u8));
            body.extend_from_slice(b);
            body.extend((p2..l).map(|i| b'0' + (i % 10) as u8));
            check_literal(ctx, &lit_of(&body), both, &f2[..]);
        }));
    }
    // 6b. every distinct string literal of the corpus documents (twitter.json: escapes, CJK, emoji)
    {
        let mut lits: Vec<Vec<u8>> = vec![];
        for (_, d) in gen::corpus() {
            lits.extend(gen::corpus_tokens(&d, true));
        }
        lits.sort();
        lits.dedup();
        if q {
            lits = lits.into_iter().enumerate().filter(|(i, _)| i % 3 == 0).map(|(_, s)| s).collect();
        }
        v.push(Family::of_vec("corpus-string-literals", lits, move |l, ctx| check_literal(ctx, l, both, &f2[..1])));
    }
    // 6c. a backslash followed by every byte value: alone, inside text, after another escape, and as
    // the last character
    v.push(Family::new("backslash+every-byte", 256 * 4, move |idx, ctx| {
        let b = (idx / 4) as u8;
        let (pre, post): (&[u8], &[u8]) = match idx % 4 {
            0 => (b"", b""),
            1 => (b"ab", b"cd"),
            2 => (b"\\n", b"0000"),
            _ => (b"0123456789012345678901234567890123456789", b""),
        };
        let mut body = pre.to_vec();
        body.push(b'\\');
        body.push(b);
        body.extend_from_slice(post);
        check_literal(ctx, &lit_of(&body), both, f2);
    }));
    // 7. (escape head) + plain run of every length + every short B11 tail: every continuation at
    // every offset of the scanners, before and after the string's first escape
    {
        let (heads, max_run, tl) = if q { (2usize, 70u64, 3u32) } else { (3, 140, 4) };
        v.push(Family::new("head+plain-run+b11-tail", gen::head_run_tail_count(heads, max_run, tl), move |idx, ctx| {
            let body = gen::head_run_tail_body(heads, max_run, tl, idx);
            check_literal(ctx, &lit_of(&body), both, f2);
        }));
    }
    v
}
