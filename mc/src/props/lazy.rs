//! C10 (get == parse+lookup), C11 (get_many / get_by_schema), C12 (lazy iterators),
//! C14 (validating lazy APIs never hand out malformed fragments).

use bytes::Bytes;
use faststr::FastStr;
use serde_json::json;
use sonic_rs::{JsonContainerTrait, JsonValueTrait, LazyValue, OwnedLazyValue, PointerNode, PointerTree, Value};

use crate::{
    engine::{guard, show, Ctx, Family, Tier},
    gen::{self, DocGen},
    refjson::{self, is_ws, Kind, Mode as RMode, Node, Seg},
    walk,
};

pub fn to_pointer(path: &[Seg]) -> Vec<PointerNode> {
    path.iter()
        .map(|s| match s {
            Seg::Key(k) => PointerNode::Key(FastStr::new(k)),
            Seg::Idx(i) => PointerNode::Index(*i),
        })
        .collect()
}

fn path_str(path: &[Seg]) -> String {
    let mut s = String::from("[");
    for (i, p) in path.iter().enumerate() {
        if i > 0 {
            s.push(',');
        }
        match p {
            Seg::Key(k) => s.push_str(&format!("{:?}", k)),
            Seg::Idx(i) => s.push_str(&format!("{}", i)),
        }
    }
    s.push(']');
    s
}

#[derive(Debug, PartialEq, Eq, Clone, Copy)]
pub enum Fail {
    NotFound,
    TypeMismatch,
    Malformed,
}

/// Reference validating walker: what a checked `get` must do on arbitrary bytes.
/// Ok((start,end)) iff everything up to the end of the target is well-formed.
pub fn ref_get(s: &[u8], path: &[Seg]) -> Result<(usize, usize), Fail> {
    let mut pos = 0usize;
    let ws = |mut p: usize| {
        while p < s.len() && is_ws(s[p]) {
            p += 1;
        }
        p
    };
    for seg in path {
        pos = ws(pos);
        if pos >= s.len() {
            return Err(Fail::Malformed);
        }
        match seg {
            Seg::Key(k) => {
                if s[pos] != b'{' {
                    // a complete well-formed value of another kind is a type mismatch
                    return match refjson::parse_value_at(s, pos, RMode::Grammar) {
                        Ok(_) => Err(Fail::TypeMismatch),
                        Err(_) => Err(Fail::Malformed),
                    };
                }
                pos = ws(pos + 1);
                if pos >= s.len() {
                    return Err(Fail::Malformed);
                }
                if s[pos] == b'}' {
                    return Err(Fail::NotFound);
                }
                loop {
                    if pos >= s.len() || s[pos] != b'"' {
                        return Err(Fail::Malformed);
                    }
                    let key = refjson::parse_value_at(s, pos, RMode::Decode).map_err(|_| Fail::Malformed)?;
                    pos = ws(key.end);
                    if pos >= s.len() || s[pos] != b':' {
                        return Err(Fail::Malformed);
                    }
                    pos += 1;
                    if key.key_str() == k {
                        break;
                    }
                    let v = refjson::parse_value_at(s, pos, RMode::Grammar).map_err(|_| Fail::Malformed)?;
                    pos = ws(v.end);
                    if pos >= s.len() {
                        return Err(Fail::Malformed);
                    }
                    match s[pos] {
                        b',' => {
                            pos = ws(pos + 1);
                        }
                        b'}' => return Err(Fail::NotFound),
                        _ => return Err(Fail::Malformed),
                    }
                }
            }
            Seg::Idx(i) => {
                if s[pos] != b'[' {
                    return match refjson::parse_value_at(s, pos, RMode::Grammar) {
                        Ok(_) => Err(Fail::TypeMismatch),
                        Err(_) => Err(Fail::Malformed),
                    };
                }
                pos = ws(pos + 1);
                if pos >= s.len() {
                    return Err(Fail::Malformed);
                }
                if s[pos] == b']' {
                    return Err(Fail::NotFound);
                }
                for _ in 0..*i {
                    let v = refjson::parse_value_at(s, pos, RMode::Grammar).map_err(|_| Fail::Malformed)?;
                    pos = ws(v.end);
                    if pos >= s.len() {
                        return Err(Fail::Malformed);
                    }
                    match s[pos] {
                        b',' => pos += 1,
                        b']' => return Err(Fail::NotFound),
                        _ => return Err(Fail::Malformed),
                    }
                }
            }
        }
    }
    let v = refjson::parse_value_at(s, pos, RMode::Grammar).map_err(|_| Fail::Malformed)?;
    Ok((v.start, v.end))
}

fn span_of(raw: &str, base: &[u8]) -> Option<(usize, usize)> {
    let p = raw.as_ptr() as usize;
    let b = base.as_ptr() as usize;
    if p >= b && p + raw.len() <= b + base.len() {
        Some((p - b, p - b + raw.len()))
    } else {
        None
    }
}

#[derive(Debug)]
pub enum GetObs {
    Span(usize, usize, Vec<u8>),
    Detached(Vec<u8>),
    Err { not_found: bool, type_mismatch: bool, msg: String },
}

fn obs<'a>(r: sonic_rs::Result<LazyValue<'a>>, base: &[u8]) -> GetObs {
    match r {
        Ok(lv) => {
            let raw = lv.as_raw_str();
            match span_of(raw, base) {
                Some((a, b)) => GetObs::Span(a, b, raw.as_bytes().to_vec()),
                None => GetObs::Detached(raw.as_bytes().to_vec()),
            }
        }
        Err(e) => GetObs::Err {
            not_found: e.is_not_found(),
            type_mismatch: e.is_unmatched_type(),
            msg: e.to_string().lines().next().unwrap_or("").to_string(),
        },
    }
}

pub const GET_EPS: &[&str] = &[
    "get(&[u8])",
    "get(&str)",
    "get(&String)",
    "get(&Bytes)",
    "get(&FastStr)",
    "get_from_str",
    "get_from_slice",
    "get_from_bytes",
    "get_from_faststr",
    "get_unchecked(&[u8])",
    "get_unchecked(&str)",
    "get_from_str_unchecked",
    "get_from_slice_unchecked",
    "get_from_bytes_unchecked",
    "get_from_faststr_unchecked",
];

pub fn is_unchecked_ep(i: usize) -> bool {
    i >= 9
}

/// run get entry point `i`; None when the carrier cannot hold the input (non-UTF-8 in &str)
pub fn run_get(i: usize, doc: &[u8], ptr: &[PointerNode]) -> Option<GetObs> {
    let s = std::str::from_utf8(doc).ok();
    Some(match i {
        0 => obs(sonic_rs::get(doc, ptr), doc),
        1 => obs(sonic_rs::get(s?, ptr), doc),
        2 => {
            let st = s?.to_string();
            let r = obs(sonic_rs::get(&st, ptr), st.as_bytes());
            r
        }
        3 => {
            let b = Bytes::copy_from_slice(doc);
            let r = obs(sonic_rs::get(&b, ptr), &b);
            r
        }
        4 => {
            let f = FastStr::new(s?);
            let r = obs(sonic_rs::get(&f, ptr), f.as_bytes());
            r
        }
        5 => obs(sonic_rs::get_from_str(s?, ptr), doc),
        6 => obs(sonic_rs::get_from_slice(doc, ptr), doc),
        7 => {
            let b = Bytes::copy_from_slice(doc);
            let r = obs(sonic_rs::get_from_bytes(&b, ptr), &b);
            r
        }
        8 => {
            let f = FastStr::new(s?);
            let r = obs(sonic_rs::get_from_faststr(&f, ptr), f.as_bytes());
            r
        }
        9 => obs(unsafe { sonic_rs::get_unchecked(doc, ptr) }, doc),
        10 => obs(unsafe { sonic_rs::get_unchecked(s?, ptr) }, doc),
        11 => obs(unsafe { sonic_rs::get_from_str_unchecked(s?, ptr) }, doc),
        12 => obs(unsafe { sonic_rs::get_from_slice_unchecked(doc, ptr) }, doc),
        13 => {
            let b = Bytes::copy_from_slice(doc);
            let r = obs(unsafe { sonic_rs::get_from_bytes_unchecked(&b, ptr) }, &b);
            r
        }
        14 => {
            let f = FastStr::new(s?);
            let r = obs(unsafe { sonic_rs::get_from_faststr_unchecked(&f, ptr) }, f.as_bytes());
            r
        }
        _ => unreachable!(),
    })
}

/// why a path does not resolve in a well-formed tree
fn ref_fail(root: &Node, path: &[Seg]) -> Fail {
    let mut cur = root;
    for seg in path {
        match (seg, &cur.kind) {
            (Seg::Key(k), Kind::Obj(o)) => match o.iter().find(|(kn, _)| kn.key_str() == k) {
                Some((_, v)) => cur = v,
                None => return Fail::NotFound,
            },
            (Seg::Idx(i), Kind::Arr(a)) => match a.get(*i) {
                Some(v) => cur = v,
                None => return Fail::NotFound,
            },
            _ => return Fail::TypeMismatch,
        }
    }
    Fail::Malformed
}

pub fn perturbed_paths(root: &Node) -> Vec<Vec<Seg>> {
    let mut out = vec![];
    for p in refjson::all_paths(root) {
        let n = refjson::walk(root, &p).unwrap();
        let mut add = |s: Seg| {
            let mut q = p.clone();
            q.push(s);
            if refjson::walk(root, &q).is_none() {
                out.push(q);
            }
        };
        match &n.kind {
            Kind::Obj(_) => {
                add(Seg::Key("zz".into()));
                add(Seg::Key("".into()));
                add(Seg::Key("A".into()));
                add(Seg::Idx(0));
            }
            Kind::Arr(a) => {
                add(Seg::Idx(a.len()));
                add(Seg::Idx(a.len() + 7));
                add(Seg::Key("a".into()));
            }
            _ => {
                add(Seg::Key("a".into()));
                add(Seg::Idx(0));
            }
        }
    }
    out
}

/// C10 on one well-formed, duplicate-free document: every path x every entry point
pub fn check_get_doc(ctx: &mut Ctx, doc: &[u8], all_eps: bool) {
    let Ok(root) = refjson::parse_doc(doc, RMode::Decode) else {
        ctx.outcome("skipped:not-wellformed");
        return;
    };
    // (with duplicate member names the first member wins: the reference walker takes the first)
    ctx.nontrivial();
    let mut paths = refjson::all_paths(&root);
    paths.extend(perturbed_paths(&root));
    let mut seen = std::collections::HashSet::new();
    paths.retain(|p| seen.insert(path_str(p)));
    check_get_on_paths(ctx, doc, &root, &paths, all_eps);
}

/// C10 on a long corpus document: every path of depth <= 2, every k-th deeper path and every k-th
/// perturbed (unresolvable) path
pub fn check_get_corpus(ctx: &mut Ctx, doc: &[u8], budget: usize) {
    let Ok(root) = refjson::parse_doc(doc, RMode::Decode) else {
        ctx.outcome("skipped:not-wellformed");
        return;
    };
    if root.has_duplicate_keys() {
        ctx.outcome("skipped:duplicate-keys");
        return;
    }
    ctx.nontrivial();
    let all = refjson::all_paths(&root);
    let mut sel: Vec<Vec<Seg>> = all.iter().filter(|p| p.len() <= 2).take(budget).cloned().collect();
    let deep: Vec<&Vec<Seg>> = all.iter().filter(|p| p.len() > 2).collect();
    let stride = (deep.len() / budget.max(1)).max(1);
    sel.extend(deep.iter().step_by(stride).map(|p| (*p).clone()));
    let pert = perturbed_paths(&root);
    let stride = (pert.len() / budget.max(1)).max(1);
    sel.extend(pert.into_iter().step_by(stride));
    ctx.sample(|| json!({"doc_len": doc.len(), "paths_selected": sel.len(), "paths_total": all.len()}));
    check_get_on_paths(ctx, doc, &root, &sel, false);
}

pub fn check_get_on_paths(ctx: &mut Ctx, doc: &[u8], root: &Node, paths: &[Vec<Seg>], all_eps: bool) {
    let dom: Option<Value> = guard(|| sonic_rs::from_slice::<Value>(doc).ok()).ok().flatten();
    let lazy_root: Option<LazyValue> = guard(|| sonic_rs::from_slice::<LazyValue>(doc).ok()).ok().flatten();
    for path in paths {
        let ptr = to_pointer(path);
        let exp = refjson::walk(&root, path);
        let neps = if all_eps { GET_EPS.len() } else { 10 };
        for i in 0..neps {
            if !all_eps && !(i == 0 || i == 9) {
                continue;
            }
            let r = guard(|| run_get(i, doc, &ptr));
            ctx.state();
            ctx.call();
            let name = GET_EPS[i];
            let o = match r {
                Err(p) => {
                    ctx.violation(&format!("panic/{name}"), json!({"entry": name, "doc": show(doc), "path": path_str(path), "panic": p}));
                    continue;
                }
                Ok(None) => continue,
                Ok(Some(o)) => o,
            };
            ctx.tr(|t| match &o {
                GetObs::Span(a, b, _) => {
                    t.u64(*a as u64);
                    t.u64(*b as u64);
                }
                GetObs::Detached(x) => t.bytes(x),
                GetObs::Err { not_found, .. } => t.bytes(&[0xee, *not_found as u8]),
            });
            match (exp, &o) {
                (Some(n), GetObs::Span(a, b, _)) => {
                    if (*a, *b) == (n.start, n.end) {
                        ctx.outcome("found:exact-span");
                    } else {
                        ctx.outcome("VIOL:wrong-span");
                        ctx.violation(
                            &format!("wrong-span/{name}"),
                            json!({"entry": name, "doc": show(doc), "path": path_str(path), "expected_span": [n.start, n.end], "observed_span": [a, b],
                                   "expected_text": String::from_utf8_lossy(n.text(doc)), "observed_text": String::from_utf8_lossy(&doc[*a..(*b).min(doc.len())])}),
                        );
                    }
                }
                (Some(n), GetObs::Detached(x)) if matches!(i, 3 | 4 | 7 | 8 | 13 | 14) && x.as_slice() == n.text(doc) => {
                    // owning carriers (Bytes / FastStr) may hand out a copy of a short value: the
                    // text is what counts
                    ctx.outcome("found:exact-text(owned carrier)");
                }
                (Some(n), GetObs::Detached(x)) => {
                    ctx.outcome("VIOL:detached");
                    ctx.violation(
                        &format!("not-a-subslice/{name}"),
                        json!({"entry": name, "doc": show(doc), "path": path_str(path), "expected_text": String::from_utf8_lossy(n.text(doc)), "observed_text": String::from_utf8_lossy(x)}),
                    );
                }
                (Some(n), GetObs::Err { msg, .. }) => {
                    ctx.outcome("VIOL:not-found");
                    ctx.violation(
                        &format!("resolvable-path-fails/{name}"),
                        json!({"entry": name, "doc": show(doc), "path": path_str(path), "expected_text": String::from_utf8_lossy(n.text(doc)), "observed_error": msg}),
                    );
                }
                (None, GetObs::Err { not_found, type_mismatch, msg }) => {
                    let why = ref_fail(&root, path);
                    let cat_ok = match why {
                        Fail::NotFound => *not_found,
                        Fail::TypeMismatch => *type_mismatch,
                        Fail::Malformed => true,
                    };
                    if cat_ok || is_unchecked_ep(i) {
                        ctx.outcome(match why {
                            Fail::NotFound => "absent:not-found",
                            Fail::TypeMismatch => "absent:type-mismatch",
                            Fail::Malformed => "absent",
                        });
                    } else {
                        ctx.outcome("VIOL:wrong-category");
                        ctx.violation(
                            &format!("wrong-error-category/{name}/{:?}", why),
                            json!({"entry": name, "doc": show(doc), "path": path_str(path), "reference": format!("{:?}", why), "observed_error": msg,
                                   "is_not_found": not_found, "is_unmatched_type": type_mismatch}),
                        );
                    }
                }
                (None, GetObs::Span(a, b, _)) => {
                    ctx.outcome("VIOL:found-unresolvable");
                    ctx.violation(
                        &format!("unresolvable-path-succeeds/{name}"),
                        json!({"entry": name, "doc": show(doc), "path": path_str(path), "observed_text": String::from_utf8_lossy(&doc[*a..(*b).min(doc.len())])}),
                    );
                }
                (None, GetObs::Detached(x)) => {
                    ctx.violation(
                        &format!("unresolvable-path-succeeds/{name}"),
                        json!({"entry": name, "doc": show(doc), "path": path_str(path), "observed_text": String::from_utf8_lossy(x)}),
                    );
                }
            }
        }
        // DOM: pointer, get chain, Index chain
        if let Some(v) = &dom {
            let r = guard(|| -> Result<(), String> {
                let got = v.pointer(&ptr);
                match (exp, got) {
                    (Some(n), Some(x)) => walk::cmp_value(x, n, doc, cfg!(feature = "arbitrary_precision"))?,
                    (None, None) => {}
                    (Some(_), None) => return Err("Value::pointer is None for a resolvable path".into()),
                    (None, Some(_)) => return Err("Value::pointer is Some for an unresolvable path".into()),
                }
                // get chain
                let mut cur: Option<&Value> = Some(v);
                for seg in path.iter() {
                    cur = match (cur, seg) {
                        (Some(c), Seg::Key(k)) => c.get(k.as_str()),
                        (Some(c), Seg::Idx(i)) => c.get(*i),
                        (None, _) => None,
                    };
                }
                if cur.map(|c| c as *const Value) != got.map(|c| c as *const Value) {
                    return Err("Value::get chain and Value::pointer disagree".into());
                }
                // Index chain: missing -> static null
                let mut c: &Value = v;
                for seg in path.iter() {
                    c = match seg {
                        Seg::Key(k) => &c[k.as_str()],
                        Seg::Idx(i) => &c[*i],
                    };
                }
                match got {
                    Some(g) if !std::ptr::eq(g, c) => return Err("Index chain does not reach the pointer target".into()),
                    None if !c.is_null() => return Err("Index chain on an unresolvable path is not null".into()),
                    _ => {}
                }
                Ok(())
            });
            ctx.state();
            ctx.calls(3);
            match r {
                Ok(Ok(())) => ctx.outcome("dom:agrees"),
                Ok(Err(m)) => ctx.violation("dom-lookup", json!({"doc": show(doc), "path": path_str(path), "mismatch": m})),
                Err(p) => ctx.violation("panic/dom-lookup", json!({"doc": show(doc), "path": path_str(path), "panic": p})),
            }
        } else {
            ctx.violation("dom-rejects-wellformed", json!({"doc": show(doc)}));
        }
        // LazyValue::pointer / get chain
        if let Some(lv) = &lazy_root {
            let r = guard(|| -> Result<(), String> {
                // a LazyValue obtained through serde owns a (possibly inline) copy of its text, and so
                // do its children: compare texts
                let got = lv.pointer(&ptr);
                let text = got.as_ref().map(|g| g.as_raw_str().as_bytes().to_vec());
                match (exp, &text) {
                    (Some(n), Some(t)) if t.as_slice() == n.text(doc) => {}
                    (None, None) => {}
                    (e, g) => {
                        return Err(format!(
                            "LazyValue::pointer: expected {:?} got {:?}",
                            e.map(|n| String::from_utf8_lossy(n.text(doc)).to_string()),
                            g.as_ref().map(|t| String::from_utf8_lossy(t).to_string())
                        ))
                    }
                }
                fn chain(lv: &LazyValue, path: &[Seg]) -> Option<Vec<u8>> {
                    if path.is_empty() {
                        return Some(lv.as_raw_str().as_bytes().to_vec());
                    }
                    let next = match &path[0] {
                        Seg::Key(k) => lv.get(k.as_str()),
                        Seg::Idx(i) => lv.get(*i),
                    }?;
                    chain(&next, &path[1..])
                }
                let c = chain(lv, path);
                if c.as_deref() != exp.map(|n| n.text(doc)) {
                    return Err(format!("LazyValue::get chain: got {:?}", c.map(|t| String::from_utf8_lossy(&t).to_string())));
                }
                Ok(())
            });
            ctx.state();
            ctx.calls(2);
            match r {
                Ok(Ok(())) => ctx.outcome("lazy:agrees"),
                Ok(Err(m)) => ctx.violation("lazy-lookup", json!({"doc": show(doc), "path": path_str(path), "mismatch": m})),
                Err(p) => ctx.violation("panic/lazy-lookup", json!({"doc": show(doc), "path": path_str(path), "panic": p})),
            }
        } else {
            ctx.violation("lazy-rejects-wellformed", json!({"doc": show(doc)}));
        }
        // OwnedLazyValue::pointer / get chain (fresh value per path: lookups load containers)
        {
            let r = guard(|| -> Result<(), String> {
                let olv: OwnedLazyValue = sonic_rs::from_slice(doc).map_err(|e| format!("rejected: {e}"))?;
                let got = olv.pointer(&ptr);
                match (exp, got) {
                    (Some(n), Some(x)) => {
                        let s = sonic_rs::to_string(x).map_err(|e| e.to_string())?;
                        let a = refjson::parse_doc(s.as_bytes(), RMode::Decode).map_err(|r| format!("{:?} not well-formed: {:?}", s, r.reason))?;
                        if a.dumps() != n.dumps() {
                            return Err(format!("OwnedLazyValue::pointer target {:?} vs source {:?}", s, String::from_utf8_lossy(n.text(doc))));
                        }
                        if !matches!(n.kind, Kind::Arr(_) | Kind::Obj(_)) && s.as_bytes() != n.text(doc) {
                            return Err(format!("scalar text {:?} vs source {:?}", s, String::from_utf8_lossy(n.text(doc))));
                        }
                    }
                    (None, None) => {}
                    (Some(_), None) => return Err("OwnedLazyValue::pointer None for a resolvable path".into()),
                    (None, Some(_)) => return Err("OwnedLazyValue::pointer Some for an unresolvable path".into()),
                }
                let mut cur: Option<&OwnedLazyValue> = Some(&olv);
                for seg in path.iter() {
                    cur = match (cur, seg) {
                        (Some(c), Seg::Key(k)) => c.get(k.as_str()),
                        (Some(c), Seg::Idx(i)) => c.get(*i),
                        (None, _) => None,
                    };
                }
                if cur.is_some() != exp.is_some() {
                    return Err("OwnedLazyValue::get chain disagrees".into());
                }
                Ok(())
            });
            ctx.state();
            ctx.calls(2);
            match r {
                Ok(Ok(())) => ctx.outcome("owned-lazy:agrees"),
                Ok(Err(m)) => ctx.violation("owned-lazy-lookup", json!({"doc": show(doc), "path": path_str(path), "mismatch": m})),
                Err(p) => ctx.violation("panic/owned-lazy-lookup", json!({"doc": show(doc), "path": path_str(path), "panic": p})),
            }
        }
    }
    ctx.sample(|| json!({"doc": String::from_utf8_lossy(doc), "paths": paths.len()}));
}

// ------------------------------------------------------------------------------------------
// document spaces for C10 / C11

pub fn c10_gen(style: gen::Style) -> DocGen {
    DocGen {
        leaves: gen::strs(&["1", "\"s\"", "\"}],:{[\\\"\"", "\"\\\\\"", "true", "null", "-1.5e3"]),
        keys: gen::strs(&["\"a\"", "\"b\\u0062\"", "\"\"", "\"k]\""]),
        style,
        allow_dup_keys: false,
    }
}

/// block-edge sweep: a filler placed so that its special bytes land on every offset 0..=max
pub fn block_edge_docs(max: usize) -> Vec<Vec<u8>> {
    let mut out = vec![];
    for p in 0..=max {
        let pad = "x".repeat(p);
        let mut fillers: Vec<String> = vec![
            format!("\"{pad}\\\"q\""),
            format!("\"{pad}]}}[{{,:\""),
            format!("\"{pad}\\\\\""),
            format!("[{}{{\"x\":[1,\"]\"]}}]", " ".repeat(p)),
            format!("{{\"q\":\"{pad}\",\"r\":[{{\"s\":\"}}\\\"\"}}]}}"),
            format!("{{\"s\":\"{pad}\\\"}} tail\"}}"),
            format!("[\"{pad}\\\\\\\"\",[\"]\"],\"[\"]"),
        ];
        for n in 1..=5usize {
            let bs = "\\".repeat(n);
            let body = if n % 2 == 1 { format!("{pad}{bs}\"") } else { format!("{pad}{bs}") };
            fillers.push(format!("\"{body}\""));
            fillers.push(format!("[\"{body}z\"]"));
        }
        for f in fillers {
            out.push(format!("{{\"k\":{f},\"t\":7}}").into_bytes());
            out.push(format!("[{f},7]").into_bytes());
            out.push(format!("{{\"o\":{{\"k\":{f}}},\"t\":[{f},7]}}").into_bytes());
            out.push(format!("[[{f}],{{\"t\":7}}]").into_bytes());
            // a long tail behind the filler: the block after the special byte is a full SIMD block
            out.push(format!("{{\"k\":{f},\"t\":7,\"tail\":\"{}\"}}", "y".repeat(70)).into_bytes());
        }
    }
    out
}

/// documents whose strings use every escape of the grammar, in values and keys
pub fn all_escapes_gen() -> DocGen {
    DocGen {
        leaves: gen::strs(&[gen::ALL_ESCAPES_LIT, gen::ENDS_IN_U_ESCAPE_LIT, "1", "\"\\/\""]),
        keys: gen::strs(&["\"a\"", "\"\\/\\b\\f\\r\\t\\u0041\""]),
        style: gen::COMPACT,
        allow_dup_keys: false,
    }
}

/// number shapes (integer width x fraction x exponent marker x sign, with and without 32 bytes of
/// input after them) and containers that are empty but not minimal
pub fn shape_docs() -> Vec<Vec<u8>> {
    let mut docs: Vec<Vec<u8>> = gen::number_shape_docs().into_iter().map(|s| s.into_bytes()).collect();
    for e in gen::SPACED_EMPTIES {
        docs.push(e.as_bytes().to_vec());
        docs.push(format!("[{e},{{\"a\":{e}}} ,{e}]").into_bytes());
        docs.push(format!("{{\"a\":{e},\"b\":[{e}, 1]}}").into_bytes());
    }
    docs
}

pub fn families_c10(tier: Tier) -> Vec<Family> {
    let q = tier == Tier::Quick;
    let mut v = vec![];
    for (i, st) in gen::STYLES.iter().enumerate() {
        let n = if q { 3 } else { 5 };
        let docs = c10_gen(st.clone()).docs(n);
        let all = i == 0;
        v.push(Family::of_vec(&format!("docs<={}nodes/style{}", n, i), docs, move |d, ctx| check_get_doc(ctx, d.as_bytes(), all)));
    }
    // deeper documents over a smaller leaf set
    {
        let g = DocGen { leaves: gen::strs(&["1", "\"s\\\"]\""]), keys: gen::strs(&["\"a\"", "\"b\\u0062\""]), style: gen::SPACED, allow_dup_keys: false };
        let n = if q { 5 } else { 7 };
        v.push(Family::of_vec(&format!("deep-docs<={}nodes", n), g.docs(n), move |d, ctx| check_get_doc(ctx, d.as_bytes(), false)));
    }
    v.push(Family::of_vec("block-edge-sweep", block_edge_docs(if q { 70 } else { 135 }), |d, ctx| check_get_doc(ctx, d, false)));
    v.push(Family::of_vec("number-shapes+spaced-empties", shape_docs(), |d, ctx| check_get_doc(ctx, d, false)));
    {
        // repeated member names (also with values of different kinds): the first member wins
        let g = DocGen { leaves: gen::strs(&["1", "\"s\"", "[2]"]), keys: gen::strs(&["\"a\"", "\"b\""]), style: gen::COMPACT, allow_dup_keys: true };
        let n = if q { 4 } else { 5 };
        let docs: Vec<String> = g.docs(n).into_iter().filter(|d| refjson::parse_doc(d.as_bytes(), RMode::Decode).map(|r| r.has_duplicate_keys()).unwrap_or(false)).collect();
        v.push(Family::of_vec(&format!("duplicate-names-docs<={n}nodes"), docs, |d, ctx| check_get_doc(ctx, d.as_bytes(), true)));
    }
    {
        // every escape kind in values and keys; a string ending in a \u escape (also as the last
        // byte of the input)
        let g = all_escapes_gen();
        let n = if q { 3 } else { 4 };
        v.push(Family::of_vec(&format!("all-escapes-docs<={n}nodes"), g.docs(n), |d, ctx| check_get_doc(ctx, d.as_bytes(), true)));
    }
    // corpus documents: a strided selection of their paths
    {
        let docs: Vec<(String, Vec<u8>)> = gen::corpus().into_iter().filter(|(_, d)| d.len() < if q { 700_000 } else { 3 << 20 }).collect();
        let budget = if q { 100 } else { 1500 };
        v.push(Family::of_vec("corpus-files/strided-paths", docs, move |(_, d), ctx| check_get_corpus(ctx, d, budget)));
    }
    // framed variants: trailing/leading whitespace around the whole document
    {
        let base = block_edge_docs(if q { 40 } else { 70 });
        let mut framed = vec![];
        for (i, d) in base.iter().enumerate() {
            if i % 4 != 0 {
                continue;
            }
            for f in &gen::FRAMINGS_FULL[1..] {
                let mut t = vec![];
                gen::frame(d, *f, &mut t);
                framed.push(t);
            }
        }
        v.push(Family::of_vec("block-edge-sweep/framed", framed, |d, ctx| check_get_doc(ctx, d, false)));
    }
    v
}

// ------------------------------------------------------------------------------------------
// C11

fn lv_span(lv: &LazyValue, doc: &[u8]) -> Option<(usize, usize)> {
    span_of(lv.as_raw_str(), doc)
}

/// everything a caller can read from a lazy value besides its span
pub fn lv_views(lv: &LazyValue) -> String {
    format!(
        "raw={:?} type={:?} str={:?} bool={:?} u64={:?} i64={:?} f64={:?} null={:?}",
        lv.as_raw_str(),
        lv.get_type(),
        lv.as_str().map(|s| s.to_string()),
        lv.as_bool(),
        lv.as_u64(),
        lv.as_i64(),
        lv.as_f64().map(|f| f.to_bits()),
        lv.is_null()
    )
}

/// all multisets (as ordered tuples, order matters for slot order) of size <= k
fn tuples(n: usize, k: usize) -> Vec<Vec<usize>> {
    let mut out: Vec<Vec<usize>> = vec![vec![]];
    let mut cur: Vec<Vec<usize>> = vec![vec![]];
    for _ in 0..k {
        let mut next = vec![];
        for t in &cur {
            for i in 0..n {
                let mut u = t.clone();
                u.push(i);
                next.push(u);
            }
        }
        out.extend(next.iter().cloned());
        cur = next;
    }
    out
}

/// is the set of paths shape-consistent (children of every trie node all keys or all indices)
fn shape_consistent(paths: &[&Vec<Seg>]) -> bool {
    for (i, a) in paths.iter().enumerate() {
        for b in &paths[i + 1..] {
            let mut j = 0;
            while j < a.len() && j < b.len() {
                match (&a[j], &b[j]) {
                    (Seg::Key(x), Seg::Key(y)) => {
                        if x != y {
                            break;
                        }
                    }
                    (Seg::Idx(x), Seg::Idx(y)) => {
                        if x != y {
                            break;
                        }
                    }
                    _ => return false,
                }
                j += 1;
            }
        }
    }
    true
}

pub fn check_get_many_doc(ctx: &mut Ctx, doc: &[u8], max_paths: usize) {
    let Ok(root) = refjson::parse_doc(doc, RMode::Decode) else {
        return;
    };
    if root.has_duplicate_keys() {
        return;
    }
    ctx.nontrivial();
    let mut universe = refjson::all_paths(&root);
    // missing keys / out-of-range indexes of the same kind as the container (shape-consistent)
    for p in refjson::all_paths(&root) {
        let n = refjson::walk(&root, &p).unwrap();
        match &n.kind {
            Kind::Obj(_) => {
                let mut q = p.clone();
                q.push(Seg::Key("zz".into()));
                universe.push(q.clone());
                q.push(Seg::Key("deeper".into()));
                universe.push(q);
            }
            Kind::Arr(a) => {
                let mut q = p.clone();
                q.push(Seg::Idx(a.len()));
                universe.push(q);
            }
            _ => {}
        }
    }
    let n = universe.len();
    let ptrs: Vec<Vec<PointerNode>> = universe.iter().map(|p| to_pointer(p)).collect();
    // per-path single get
    let singles: Vec<Option<(usize, usize)>> =
        universe.iter().map(|p| refjson::walk(&root, p).map(|n| (n.start, n.end))).collect();
    // what single-path get lets the caller read for each path (decoded string, number, ...)
    let single_views: Vec<Option<String>> =
        ptrs.iter().map(|p| guard(|| sonic_rs::get(doc, p).ok().map(|lv| lv_views(&lv))).ok().flatten()).collect();
    for t in tuples(n, max_paths) {
        let sel: Vec<&Vec<Seg>> = t.iter().map(|i| &universe[*i]).collect();
        if !shape_consistent(&sel) {
            continue;
        }
        for unchecked in [false, true] {
            let r = guard(|| {
                let mut tree = PointerTree::new();
                for i in &t {
                    tree.add_path(ptrs[*i].iter());
                }
                let r = if unchecked { unsafe { sonic_rs::get_many_unchecked(doc, &tree) } } else { sonic_rs::get_many(doc, &tree) };
                r.map(|v| v.iter().map(|o| o.as_ref().map(|lv| (lv_span(lv, doc), lv_views(lv)))).collect::<Vec<_>>())
                    .map_err(|e| e.to_string().lines().next().unwrap_or("").to_string())
            });
            let (r, views) = match r {
                Ok(Ok(v)) => {
                    let views: Vec<Option<String>> = v.iter().map(|o| o.as_ref().map(|x| x.1.clone())).collect();
                    (Ok(Ok(v.into_iter().map(|o| o.map(|x| x.0)).collect::<Vec<_>>())), views)
                }
                Ok(Err(e)) => (Ok(Err(e)), vec![]),
                Err(p) => (Err(p), vec![]),
            };
            ctx.state();
            ctx.call();
            let name = if unchecked { "get_many_unchecked" } else { "get_many" };
            let all_resolve = t.iter().all(|i| singles[*i].is_some());
            let descr = || json!({"entry": name, "doc": show(doc), "paths": t.iter().map(|i| path_str(&universe[*i])).collect::<Vec<_>>()});
            match r {
                Err(p) => ctx.violation(&format!("panic/{name}"), json!({"case": descr(), "panic": p})),
                Ok(Err(e)) => {
                    ctx.tr(|tr| tr.bytes(b"E"));
                    if all_resolve {
                        ctx.outcome("VIOL:error-although-all-resolve");
                        ctx.violation(&format!("fails-although-all-paths-resolve/{name}"), json!({"case": descr(), "error": e}));
                    } else {
                        ctx.outcome("error(some path unresolvable)");
                    }
                }
                Ok(Ok(slots)) => {
                    ctx.tr(|tr| {
                        for s in &slots {
                            match s {
                                Some(Some((a, b))) => {
                                    tr.u64(*a as u64);
                                    tr.u64(*b as u64)
                                }
                                _ => tr.bytes(b"-"),
                            }
                        }
                    });
                    if slots.len() != t.len() {
                        ctx.violation(&format!("slot-count/{name}"), json!({"case": descr(), "slots": slots.len()}));
                        continue;
                    }
                    let mut bad = None;
                    for (k, (i, s)) in t.iter().zip(slots.iter()).enumerate() {
                        match (singles[*i], s) {
                            (Some(e), Some(Some(g))) if e == *g => {}
                            (None, None) => {}
                            (e, g) => {
                                bad = Some(format!("slot {k} ({}): single get gives {:?}, get_many gives {:?}", path_str(&universe[*i]), e, g));
                                break;
                            }
                        }
                    }
                    if bad.is_none() {
                        for (k, (i, w)) in t.iter().zip(views.iter()).enumerate() {
                            if let (Some(e), Some(g)) = (&single_views[*i], w) {
                                if e != g {
                                    bad = Some(format!("slot {k} ({}): single get reads as {e}, the get_many slot reads as {g}", path_str(&universe[*i])));
                                    break;
                                }
                            }
                        }
                    }
                    match bad {
                        None => ctx.outcome(if all_resolve { "ok:all-filled" } else { "ok:some-empty" }),
                        Some(m) => {
                            ctx.outcome("VIOL:slot-mismatch");
                            ctx.violation(&format!("slot-mismatch/{name}"), json!({"case": descr(), "mismatch": m}));
                        }
                    }
                }
            }
        }
    }
    ctx.sample(|| json!({"doc": String::from_utf8_lossy(doc), "path_universe": n}));
}

/// `{"a":` x p, `[` x d, 1, closers: the path of p keys resolves to a value nested d deep
pub fn check_deep_get_many(ctx: &mut Ctx, p: usize, d: usize) {
    ctx.nontrivial();
    let mut doc = String::new();
    for _ in 0..p {
        doc.push_str("{\"a\":");
    }
    doc.push_str(&"[".repeat(d));
    doc.push('1');
    doc.push_str(&"]".repeat(d));
    doc.push_str(&"}".repeat(p));
    let run = move || -> Result<Vec<String>, String> {
        let mut out = vec![];
        let full: Vec<PointerNode> = (0..p).map(|_| PointerNode::Key("a".into())).collect();
        let half: Vec<PointerNode> = (0..p / 2).map(|_| PointerNode::Key("a".into())).collect();
        let single_full = sonic_rs::get(doc.as_bytes(), full.iter()).map(|lv| lv.as_raw_str().to_string());
        let single_half = sonic_rs::get(doc.as_bytes(), half.iter()).map(|lv| lv.as_raw_str().to_string());
        for unchecked in [false, true] {
            let name = if unchecked { "get_many_unchecked" } else { "get_many" };
            let mut tree = PointerTree::new();
            tree.add_path(full.iter());
            tree.add_path(half.iter());
            let r = if unchecked { unsafe { sonic_rs::get_many_unchecked(doc.as_bytes(), &tree) } } else { sonic_rs::get_many(doc.as_bytes(), &tree) };
            match (&single_full, &single_half, r) {
                (Ok(a), Ok(b), Ok(slots)) => {
                    let g: Vec<Option<String>> = slots.iter().map(|o| o.as_ref().map(|lv| lv.as_raw_str().to_string())).collect();
                    if g != vec![Some(a.clone()), Some(b.clone())] {
                        out.push(format!("{name}: slots differ from single-path get (lengths {:?} vs {} / {})", g.iter().map(|x| x.as_ref().map(|s| s.len())).collect::<Vec<_>>(), a.len(), b.len()));
                    }
                }
                (Ok(_), Ok(_), Err(e)) => out.push(format!("{name} fails although both paths resolve through get: {}", e.to_string().lines().next().unwrap_or(""))),
                (_, _, Ok(_)) => {
                    // single-path get hit the nesting limit (it validates the whole value below
                    // the shorter path, get_many descends through it): a resource limit, no verdict
                }
                (_, _, Err(_)) => {}
            }
        }
        Ok(out)
    };
    // deep documents: run on a thread with a generous stack
    let r = std::thread::Builder::new().stack_size(256 << 20).spawn(move || guard(run)).unwrap().join();
    ctx.state();
    ctx.calls(4);
    match r {
        Ok(Ok(Ok(msgs))) => {
            if msgs.is_empty() {
                ctx.outcome("deep:get_many-agrees-with-get");
            }
            for m in msgs {
                ctx.violation("deep-path/get_many-vs-get", json!({"path_keys": p, "value_depth": d, "mismatch": m}));
            }
        }
        Ok(Ok(Err(m))) => ctx.violation("deep-path/harness", json!({"path_keys": p, "value_depth": d, "mismatch": m})),
        Ok(Err(pn)) => ctx.violation("panic/deep-path", json!({"path_keys": p, "value_depth": d, "panic": pn})),
        Err(_) => ctx.violation("panic/deep-path-thread", json!({"path_keys": p, "value_depth": d})),
    }
    ctx.sample(|| json!({"path_keys": p, "value_depth": d}));
}

// schema extraction --------------------------------------------------------------------------

/// reference merge on canonical dumps with sorted keys
fn ref_schema_merge(schema: &Node, doc: &Node, out: &mut String) {
    match (&schema.kind, &doc.kind) {
        (Kind::Obj(sm), Kind::Obj(dm)) if !sm.is_empty() => {
            let mut items: Vec<(String, String)> = vec![];
            for (k, sv) in sm {
                let mut s = String::new();
                match dm.iter().find(|(dk, _)| dk.key_str() == k.key_str()) {
                    Some((_, dv)) => ref_schema_merge(sv, dv, &mut s),
                    None => sorted_dump(sv, &mut s),
                }
                items.push((k.key_str().to_string(), s));
            }
            items.sort();
            out.push('{');
            for (i, (k, s)) in items.iter().enumerate() {
                if i > 0 {
                    out.push(',');
                }
                out.push_str(&format!("{:?}:{}", k, s));
            }
            out.push('}');
        }
        _ => sorted_dump(doc, out),
    }
}

fn sorted_dump(n: &Node, out: &mut String) {
    match &n.kind {
        Kind::Obj(o) => {
            let mut items: Vec<(String, String)> = o
                .iter()
                .map(|(k, v)| {
                    let mut s = String::new();
                    sorted_dump(v, &mut s);
                    (k.key_str().to_string(), s)
                })
                .collect();
            items.sort();
            out.push('{');
            for (i, (k, s)) in items.iter().enumerate() {
                if i > 0 {
                    out.push(',');
                }
                out.push_str(&format!("{:?}:{}", k, s));
            }
            out.push('}');
        }
        Kind::Arr(a) => {
            out.push('[');
            for (i, x) in a.iter().enumerate() {
                if i > 0 {
                    out.push(',');
                }
                sorted_dump(x, out);
            }
            out.push(']');
        }
        _ => n.dump(out),
    }
}

pub fn check_schema_pair(ctx: &mut Ctx, schema: &str, doc: &str) {
    let sn = refjson::parse_doc(schema.as_bytes(), RMode::Decode).unwrap();
    let dn = refjson::parse_doc(doc.as_bytes(), RMode::Decode).unwrap();
    if !matches!(sn.kind, Kind::Obj(_)) || !matches!(dn.kind, Kind::Obj(_)) || sn.has_duplicate_keys() || dn.has_duplicate_keys() {
        return;
    }
    ctx.nontrivial();
    ctx.state();
    ctx.call();
    let r = guard(|| -> Result<(), String> {
        let sv: Value = sonic_rs::from_str(schema).map_err(|e| e.to_string())?;
        let got = sonic_rs::get_by_schema(doc, sv).map_err(|e| format!("get_by_schema failed: {e}"))?;
        let mut a = String::new();
        walk::dump_value_sorted(&got, &mut a);
        let mut b = String::new();
        ref_schema_merge(&sn, &dn, &mut b);
        if a != b {
            return Err(format!("result {} vs reference merge {}", a, b));
        }
        Ok(())
    });
    match r {
        Ok(Ok(())) => ctx.outcome("schema:merged"),
        Ok(Err(m)) => ctx.violation("schema-merge", json!({"schema": schema, "doc": doc, "mismatch": m})),
        Err(p) => ctx.violation("panic/get_by_schema", json!({"schema": schema, "doc": doc, "panic": p})),
    }
}

pub fn families_c11(tier: Tier) -> Vec<Family> {
    let q = tier == Tier::Quick;
    let mut v = vec![];
    {
        let g = DocGen { leaves: gen::strs(&["1", "\"s]\"", "null"]), keys: gen::strs(&["\"a\"", "\"b\\u0062\""]), style: gen::SPACED, allow_dup_keys: false };
        let n = if q { 4 } else { 6 };
        let k = if q { 2 } else { 3 };
        v.push(Family::of_vec(&format!("docs<={}nodes x path-tuples<={}", n, k), g.docs(n), move |d, ctx| check_get_many_doc(ctx, d.as_bytes(), k)));
    }
    {
        let g = DocGen { leaves: gen::strs(&["1", "\"s\""]), keys: gen::strs(&["\"a\"", "\"b\""]), style: gen::COMPACT, allow_dup_keys: false };
        let n = if q { 4 } else { 4 };
        v.push(Family::of_vec(&format!("docs<={}nodes x path-tuples<=3", n), g.docs(n), move |d, ctx| check_get_many_doc(ctx, d.as_bytes(), 3)));
    }
    {
        // nested arrays with brackets in strings: the unchecked multi-index skipper
        let g = DocGen { leaves: gen::strs(&["1", "\"]\""]), keys: gen::strs(&["\"m\""]), style: gen::COMPACT, allow_dup_keys: false };
        let n = if q { 5 } else { 7 };
        v.push(Family::of_vec(&format!("array-heavy-docs<={}nodes x path-tuples<=2", n), g.docs(n), move |d, ctx| check_get_many_doc(ctx, d.as_bytes(), 2)));
    }
    {
        // leaves whose decoded view differs from their text, upper-case exponents, non-minimal
        // empty containers
        let g = DocGen {
            leaves: gen::strs(&["1.5E3", "\"e\\n\\\"\"", "\"\\u00e9\"", "true", "[ ]", "-0"]),
            keys: gen::strs(&["\"a\"", "\"k\\\"\""]),
            style: gen::TIGHTWS,
            allow_dup_keys: false,
        };
        let n = if q { 3 } else { 4 };
        v.push(Family::of_vec(&format!("escaped-leaves-docs<={}nodes x path-tuples<=2", n), g.docs(n), move |d, ctx| check_get_many_doc(ctx, d.as_bytes(), 2)));
        v.push(Family::of_vec("number-shapes+spaced-empties x path-tuples<=2", shape_docs(), |d, ctx| check_get_many_doc(ctx, d, 2)));
        let n = if q { 3 } else { 4 };
        v.push(Family::of_vec(&format!("all-escapes-docs<={n}nodes x path-tuples<=2"), all_escapes_gen().docs(n), |d, ctx| check_get_many_doc(ctx, d.as_bytes(), 2)));
        // structural bytes and escaped quotes inside strings at every offset of the 64-byte blocks
        // of the container skippers, in members that are skipped on the way to the targets
        let k = if q { 1 } else { 2 };
        v.push(Family::of_vec(&format!("block-edge-sweep x path-tuples<={k}"), block_edge_docs(if q { 70 } else { 135 }), move |d, ctx| check_get_many_doc(ctx, d, k)));
    }
    {
        // path length + nesting of the addressed value around the parser's depth limit (512):
        // whatever single-path get answers, get_many must answer too
        let mut grid: Vec<(usize, usize)> = vec![];
        for p in [1usize, 50, 150, 255, 256, 400, 511] {
            for d in [1usize, 100, 256, 400, 510, 511, 512] {
                grid.push((p, d));
            }
        }
        v.push(Family::of_vec("long-path x deep-value", grid, |(p, d), ctx| check_deep_get_many(ctx, *p, *d)));
    }
    // (schema, document) pairs
    {
        let sg = DocGen { leaves: gen::strs(&["null", "0"]), keys: gen::strs(&["\"a\"", "\"b\""]), style: gen::COMPACT, allow_dup_keys: false };
        let dg = DocGen { leaves: gen::strs(&["1", "\"x\""]), keys: gen::strs(&["\"a\"", "\"b\"", "\"c\""]), style: gen::SPACED, allow_dup_keys: false };
        let schemas: Vec<String> = sg.docs(4).into_iter().filter(|s| s.starts_with('{')).collect();
        let docs: Vec<String> = dg.docs(if q { 3 } else { 4 }).into_iter().filter(|s| s.starts_with('{')).collect();
        let nd = docs.len() as u64;
        let ns = schemas.len() as u64;
        v.push(Family::new("schema x document", ns * nd, move |idx, ctx| {
            check_schema_pair(ctx, &schemas[(idx / nd) as usize], &docs[(idx % nd) as usize]);
        }));
    }
    v
}

// ------------------------------------------------------------------------------------------
// C12 iterators

#[derive(Debug, PartialEq, Eq, Clone)]
pub enum Item {
    Elem(usize, usize),
    Entry(String, usize, usize),
    Error,
}

/// reference "leading members, then one error, then nothing"
pub fn ref_iter(s: &[u8], object: bool) -> (Vec<Item>, bool /* fully well-formed container */) {
    let (a, b, _) = ref_iter2(s, object);
    (a, b)
}

/// third component: an alternative, equally acceptable item list when a complete number is
/// directly followed by junk (`02`, `1x`, `0"a"`): whether that number counts as a leading member
/// or the whole token is the error is a matter of tokenisation
pub fn ref_iter2(s: &[u8], object: bool) -> (Vec<Item>, bool, Option<Vec<Item>>) {
    let ws = |mut p: usize| {
        while p < s.len() && is_ws(s[p]) {
            p += 1;
        }
        p
    };
    let mut out = vec![];
    let mut pos = ws(0);
    let open = if object { b'{' } else { b'[' };
    let close = if object { b'}' } else { b']' };
    if pos >= s.len() || s[pos] != open {
        out.push(Item::Error);
        return (out, false, None);
    }
    pos = ws(pos + 1);
    if pos < s.len() && s[pos] == close {
        return (out, true, None);
    }
    loop {
        if object {
            if pos >= s.len() || s[pos] != b'"' {
                out.push(Item::Error);
                return (out, false, None);
            }
            let Ok(k) = refjson::parse_value_at(s, pos, RMode::Decode) else {
                out.push(Item::Error);
                return (out, false, None);
            };
            pos = ws(k.end);
            if pos >= s.len() || s[pos] != b':' {
                out.push(Item::Error);
                return (out, false, None);
            }
            pos += 1;
            let Ok(v) = refjson::parse_value_at(s, pos, RMode::Grammar) else {
                out.push(Item::Error);
                return (out, false, None);
            };
            if matches!(v.kind, Kind::Num(_)) && v.end < s.len() && !is_ws(s[v.end]) && !matches!(s[v.end], b',' | b']' | b'}') {
                let mut alt = out.clone();
                alt.push(Item::Error);
                out.push(Item::Entry(k.key_str().to_string(), v.start, v.end));
                out.push(Item::Error);
                return (out, false, Some(alt));
            }
            out.push(Item::Entry(k.key_str().to_string(), v.start, v.end));
            pos = ws(v.end);
        } else {
            let Ok(v) = refjson::parse_value_at(s, pos, RMode::Grammar) else {
                out.push(Item::Error);
                return (out, false, None);
            };
            if matches!(v.kind, Kind::Num(_)) && v.end < s.len() && !is_ws(s[v.end]) && !matches!(s[v.end], b',' | b']' | b'}') {
                let mut alt = out.clone();
                alt.push(Item::Error);
                out.push(Item::Elem(v.start, v.end));
                out.push(Item::Error);
                return (out, false, Some(alt));
            }
            out.push(Item::Elem(v.start, v.end));
            pos = ws(v.end);
        }
        if pos >= s.len() {
            out.push(Item::Error);
            return (out, false, None);
        }
        if s[pos] == close {
            return (out, true, None);
        }
        if s[pos] != b',' {
            out.push(Item::Error);
            return (out, false, None);
        }
        pos = ws(pos + 1);
    }
}

/// locate the item: by address when the raw text points into `base`; owning carriers hand out
/// copies of short values, which are located by matching the text at the next expected span
fn locate(raw: &str, base: &[u8], from: &mut usize, hints: &[(usize, usize)]) -> (usize, usize) {
    if let Some((a, b)) = span_of(raw, base) {
        *from = b;
        return (a, b);
    }
    let t = raw.as_bytes();
    for &(a, b) in hints {
        if a >= *from && b <= base.len() && &base[a..b] == t {
            *from = b;
            return (a, b);
        }
    }
    (usize::MAX, usize::MAX)
}

fn drain_array<'a>(it: impl Iterator<Item = sonic_rs::Result<LazyValue<'a>>>, base: &[u8], polls: usize, hints: &[(usize, usize)]) -> Vec<Option<Item>> {
    let mut it = it;
    let mut v = vec![];
    let mut from = 0usize;
    for _ in 0..polls {
        v.push(it.next().map(|r| match r {
            Ok(lv) => {
                let (a, b) = locate(lv.as_raw_str(), base, &mut from, hints);
                Item::Elem(a, b)
            }
            Err(_) => Item::Error,
        }));
    }
    v
}
/// a member name as handed out by the subject: it claims to be a `str`, and when it is not
/// (a decoder that wrote an overlong or truncated sequence) the report must still be printable
fn subject_key(k: &str) -> String {
    match std::str::from_utf8(k.as_bytes()) {
        Ok(s) => s.to_string(),
        Err(_) => format!("<not UTF-8: {:02x?}>", k.as_bytes()),
    }
}
fn drain_object<'a>(
    it: impl Iterator<Item = sonic_rs::Result<(std::borrow::Cow<'a, str>, LazyValue<'a>)>>,
    base: &[u8],
    polls: usize,
    hints: &[(usize, usize)],
) -> Vec<Option<Item>> {
    let mut it = it;
    let mut v = vec![];
    let mut from = 0usize;
    for _ in 0..polls {
        v.push(it.next().map(|r| match r {
            Ok((k, lv)) => {
                // the value lies behind its key and the colon
                let (a, b) = locate(lv.as_raw_str(), base, &mut from, hints);
                Item::Entry(subject_key(&k), a, b)
            }
            Err(_) => Item::Error,
        }));
    }
    v
}

/// C12 (and the iterator part of C14) on arbitrary bytes
pub fn check_iter(ctx: &mut Ctx, input: &[u8], carriers: bool) {
    for object in [false, true] {
        let (exp, wellformed, alt) = ref_iter2(input, object);
        let first_is_container = !matches!(exp.first(), Some(Item::Error)) || exp.len() > 1;
        if wellformed || first_is_container {
            ctx.nontrivial();
        }
        let polls = exp.len() + 4;
        let mut want: Vec<Option<Item>> = exp.iter().cloned().map(Some).collect();
        while want.len() < polls {
            want.push(None);
        }
        let as_str = std::str::from_utf8(input).ok();
        let hints: Vec<(usize, usize)> = exp
            .iter()
            .filter_map(|i| match i {
                Item::Elem(a, b) | Item::Entry(_, a, b) => Some((*a, *b)),
                Item::Error => None,
            })
            .collect();
        let mut eps: Vec<(&'static str, Box<dyn Fn() -> Option<Vec<Option<Item>>> + '_>)> = vec![];
        if object {
            eps.push(("to_object_iter(&[u8])", Box::new(|| Some(drain_object(sonic_rs::to_object_iter(input), input, polls, &hints)))));
            if carriers {
                eps.push(("to_object_iter(&str)", Box::new(|| Some(drain_object(sonic_rs::to_object_iter(as_str?), input, polls, &hints)))));
                eps.push((
                    "to_object_iter(&Bytes)",
                    Box::new(|| {
                        let b = Bytes::copy_from_slice(input);
                        let r = drain_object(sonic_rs::to_object_iter(&b), &b, polls, &hints);
                        Some(r)
                    }),
                ));
                eps.push((
                    "to_object_iter(&FastStr)",
                    Box::new(|| {
                        let f = FastStr::new(as_str?);
                        let r = drain_object(sonic_rs::to_object_iter(&f), f.as_bytes(), polls, &hints);
                        Some(r)
                    }),
                ));
            }
        } else {
            eps.push(("to_array_iter(&[u8])", Box::new(|| Some(drain_array(sonic_rs::to_array_iter(input), input, polls, &hints)))));
            if carriers {
                eps.push(("to_array_iter(&str)", Box::new(|| Some(drain_array(sonic_rs::to_array_iter(as_str?), input, polls, &hints)))));
                eps.push((
                    "to_array_iter(&Bytes)",
                    Box::new(|| {
                        let b = Bytes::copy_from_slice(input);
                        let r = drain_array(sonic_rs::to_array_iter(&b), &b, polls, &hints);
                        Some(r)
                    }),
                ));
                eps.push((
                    "to_array_iter(&String)",
                    Box::new(|| {
                        let f = as_str?.to_string();
                        let r = drain_array(sonic_rs::to_array_iter(&f), f.as_bytes(), polls, &hints);
                        Some(r)
                    }),
                ));
            }
        }
        // unchecked + LazyValue::into_*_iter only on input that is a well-formed document as a whole
        let whole_ok = refjson::parse_doc(input, RMode::Decode).is_ok() && wellformed;
        if whole_ok {
            if object {
                eps.push(("to_object_iter_unchecked", Box::new(|| Some(drain_object(unsafe { sonic_rs::to_object_iter_unchecked(input) }, input, polls, &hints)))));
                eps.push((
                    "LazyValue::into_object_iter",
                    Box::new(|| {
                        let lv: LazyValue = sonic_rs::from_slice(input).ok()?;
                        let it = lv.into_object_iter()?;
                        Some(drain_object(it, input, polls, &hints))
                    }),
                ));
            } else {
                eps.push(("to_array_iter_unchecked", Box::new(|| Some(drain_array(unsafe { sonic_rs::to_array_iter_unchecked(input) }, input, polls, &hints)))));
                eps.push((
                    "LazyValue::into_array_iter",
                    Box::new(|| {
                        let lv: LazyValue = sonic_rs::from_slice(input).ok()?;
                        let it = lv.into_array_iter()?;
                        Some(drain_array(it, input, polls, &hints))
                    }),
                ));
            }
        }
        for (name, f) in eps.iter() {
            let r = guard(|| f());
            ctx.state();
            ctx.calls(polls as u64);
            match r {
                Err(p) => ctx.violation(&format!("panic/{name}"), json!({"entry": name, "input": show(input), "panic": p})),
                Ok(None) => {}
                Ok(Some(got)) => {
                    ctx.tr(|t| {
                        for g in &got {
                            match g {
                                Some(Item::Elem(a, b)) => {
                                    t.u64(*a as u64);
                                    t.u64(*b as u64)
                                }
                                Some(Item::Entry(k, a, b)) => {
                                    t.str(k);
                                    t.u64(*a as u64);
                                    t.u64(*b as u64)
                                }
                                Some(Item::Error) => t.bytes(b"E"),
                                None => t.bytes(b"."),
                            }
                        }
                    });
                    let alt_ok = alt.as_ref().map(|a| {
                        let mut w: Vec<Option<Item>> = a.iter().cloned().map(Some).collect();
                        while w.len() < polls {
                            w.push(None);
                        }
                        w == got
                    }).unwrap_or(false);
                    if got == want || alt_ok {
                        ctx.outcome(if wellformed { "iter:all-members-then-end" } else if exp.len() > 1 { "iter:leading-members-then-error" } else { "iter:error-then-end" });
                    } else {
                        // classify
                        let class = if got.iter().skip_while(|g| !matches!(g, Some(Item::Error) | None)).skip(1).any(|g| g.is_some()) {
                            "yields-after-end-or-error"
                        } else if wellformed {
                            "wrong-items-on-wellformed"
                        } else {
                            "wrong-items-on-malformed"
                        };
                        ctx.outcome(&format!("VIOL:{class}"));
                        ctx.violation(
                            &format!("{class}/{name}"),
                            json!({"entry": name, "input": show(input), "expected": format!("{:?}", want), "observed": format!("{:?}", got)}),
                        );
                    }
                }
            }
        }
    }
    ctx.sample(|| json!({"input": String::from_utf8_lossy(input)}));
}

/// token-level mutations of well-formed containers
pub fn iter_inputs(max_members: usize, thorough: bool) -> Vec<Vec<u8>> {
    let vals: [&[u8]; 7] = [b"1", b"\"a\"", b"\"\\n,]\"", b"[1,{\"x\":2}]", b"{\"k\":[]}", b"true", b"-1.5e1"];
    let keys: [&[u8]; 3] = [b"\"a\"", b"\"b\\u0062\"", b"\"\""];
    let mut bases: Vec<Vec<Vec<u8>>> = vec![]; // as token lists
    for n in 0..=max_members {
        for rot in 0..(if thorough { 7 } else { 3 }) {
            // array
            let mut t: Vec<Vec<u8>> = vec![b"[".to_vec()];
            for i in 0..n {
                if i > 0 {
                    t.push(b",".to_vec());
                }
                t.push(vals[(i + rot) % vals.len()].to_vec());
            }
            t.push(b"]".to_vec());
            bases.push(t);
            // object
            let mut t: Vec<Vec<u8>> = vec![b"{".to_vec()];
            for i in 0..n {
                if i > 0 {
                    t.push(b",".to_vec());
                }
                t.push(keys[(i + rot) % keys.len()].to_vec());
                t.push(b":".to_vec());
                t.push(vals[(i + rot) % vals.len()].to_vec());
            }
            t.push(b"}".to_vec());
            bases.push(t);
        }
    }
    let join = |t: &[Vec<u8>], sep: &[u8]| -> Vec<u8> {
        let mut o = vec![];
        for (i, x) in t.iter().enumerate() {
            if i > 0 {
                o.extend_from_slice(sep);
            }
            o.extend_from_slice(x);
        }
        o
    };
    let mut out: Vec<Vec<u8>> = vec![];
    for b in &bases {
        for sep in [&b""[..], b" ", b"\n\t "] {
            out.push(join(b, sep));
            // trailing bytes after the container
            let mut x = join(b, sep);
            x.extend_from_slice(b" x]}");
            out.push(x);
        }
        // every prefix (token level and byte level)
        let whole = join(b, b"");
        for k in 0..whole.len() {
            out.push(whole[..k].to_vec());
        }
        // single-token deletion / duplication / substitution
        for i in 0..b.len() {
            let mut d = b.clone();
            d.remove(i);
            out.push(join(&d, b""));
            let mut d = b.clone();
            d.insert(i, b[i].clone());
            out.push(join(&d, b" "));
            for tok in gen::T16 {
                let mut d = b.clone();
                d[i] = tok.to_vec();
                out.push(join(&d, b""));
            }
        }
    }
    // the same mutations one level finer: the members' own tokens (nested containers opened up),
    // plus insertion of every T16 token at every token boundary (e.g. a comma before a nested `}`)
    for b in &bases {
        let whole = join(b, b"");
        let toks: Vec<Vec<u8>> = crate::props::c04::tokenize(std::str::from_utf8(&whole).unwrap()).into_iter().map(|t| t.into_bytes()).collect();
        for i in 0..=toks.len() {
            for tok in gen::T16 {
                let mut d = toks.clone();
                d.insert(i, tok.to_vec());
                out.push(join(&d, b""));
            }
            if i < toks.len() {
                let mut d = toks.clone();
                d.remove(i);
                out.push(join(&d, b""));
                let mut d = toks.clone();
                d.insert(i, toks[i].clone());
                out.push(join(&d, b" "));
                for tok in gen::T16 {
                    let mut d = toks.clone();
                    d[i] = tok.to_vec();
                    out.push(join(&d, b""));
                }
            }
        }
    }
    out.sort();
    out.dedup();
    out.sort_by(|a, b| (a.len(), a).cmp(&(b.len(), b)));
    out
}

pub fn families_c12(tier: Tier) -> Vec<Family> {
    let q = tier == Tier::Quick;
    let mut v = vec![];
    v.push(Family::of_vec("container-mutations", iter_inputs(if q { 4 } else { 7 }, !q), |d, ctx| check_iter(ctx, d, true)));
    {
        let k = gen::T16.len() as u64;
        let l = if q { 4 } else { 7 };
        v.push(Family::new("t16-full", gen::seq_count(k, l), move |idx, ctx| {
            let mut seq = vec![];
            gen::nth_seq(k, l, idx, &mut seq);
            let mut d = vec![];
            gen::concat(gen::T16, &seq, &mut d);
            check_iter(ctx, &d, false);
        }));
    }
    // elements that are strings/numbers of every length (block boundaries of the skippers)
    {
        let mut docs = vec![];
        for n in 0..(if q { 70 } else { 140 }) {
            let s = "s".repeat(n);
            docs.push(format!("[\"{s}\\\"\",\"{s}\",1{} ,2]", "0".repeat(n)).into_bytes());
            docs.push(format!("{{\"{s}\":\"{s}\\\\\",\"k\":[\"{s}]\"] , \"n\":-0.{}1e5}}", "0".repeat(n)).into_bytes());
            docs.push(format!("[\"{s}\\\"b\",1]").into_bytes());
            docs.push(format!("[{}[\"{s}\\\\\\\"]\"],7 ]", " ".repeat(n % 9)).into_bytes());
        }
        v.push(Family::of_vec("length-sweep", docs, |d, ctx| check_iter(ctx, d, false)));
    }
    v.push(Family::of_vec("number-shapes+spaced-empties", shape_docs(), |d, ctx| check_iter(ctx, d, true)));
    {
        let n = if q { 3 } else { 4 };
        v.push(Family::of_vec(&format!("all-escapes-docs<={n}nodes"), all_escapes_gen().docs(n), |d, ctx| check_iter(ctx, d.as_bytes(), true)));
    }
    // every byte value inserted / substituted at every position of short containers
    for (si, seed) in ["[1,\"a\",{\"k\":[2]},true]", "{\"a\":1,\"b\":[\"x\",{}],\"c\":null}", " [ 1 , \"a\" ]\n"].into_iter().enumerate() {
        let seed = seed.as_bytes();
        v.push(Family::new(&format!("byte-neighbourhood/seed{si}(all 256 values)"), gen::byte_neighbourhood_count(seed), move |idx, ctx| {
            check_iter(ctx, &gen::byte_neighbourhood(seed, idx), false)
        }));
    }
    // corpus documents: whole, each container member of the root, and cut at evenly spaced points
    {
        let mut inputs: Vec<Vec<u8>> = vec![];
        for (_, d) in gen::corpus() {
            if d.len() > (if q { 700_000 } else { 3 << 20 }) {
                continue;
            }
            inputs.push(d.clone());
            if let Ok(root) = refjson::parse_doc(&d, RMode::Decode) {
                let kids: Vec<&Node> = match &root.kind {
                    Kind::Arr(a) => a.iter().collect(),
                    Kind::Obj(o) => o.iter().map(|(_, v)| v).collect(),
                    _ => vec![],
                };
                for k in kids.into_iter().filter(|k| matches!(k.kind, Kind::Arr(_) | Kind::Obj(_))).take(if q { 6 } else { 40 }) {
                    inputs.push(k.text(&d).to_vec());
                }
            }
            let cuts = if q { 12 } else { 100 };
            for c in 1..cuts {
                inputs.push(d[..d.len() * c / cuts].to_vec());
            }
        }
        v.push(Family::of_vec("corpus-files", inputs, |d, ctx| check_iter(ctx, d, false)));
    }
    // every \\uXXXX escape (all 65536 values; a surrogate is completed to a pair) as a whole key,
    // inside a key, and as an element: the decoded member name crosses every UTF-8 length class
    v.push(Family::new("every-u-escape-as-key", 0x10000, move |idx, ctx| {
        let cp = idx as u32;
        let esc = |c: u32| if cp & 1 == 0 { format!("\\u{:04x}", c) } else { format!("\\u{:04X}", c) };
        let e = if (0xD800..0xDC00).contains(&cp) {
            format!("{}{}", esc(cp), esc(0xDC00 + (cp & 0x3ff)))
        } else if (0xDC00..0xE000).contains(&cp) {
            format!("{}{}", esc(0xD800 + ((cp * 7) & 0x3ff)), esc(cp))
        } else {
            esc(cp)
        };
        let d = format!("{{\"{e}\":1,\"p{e}q\":[\"{e}\"]}}");
        check_iter(ctx, d.as_bytes(), false);
        let d = format!("[\"{e}\",{{\"{e}{e}\":2}}]");
        check_iter(ctx, d.as_bytes(), false);
    }));
    // B11 string bodies as element and as key
    {
        let k = gen::B11.len() as u64;
        let l = if q { 3 } else { 5 };
        v.push(Family::new("b11-element-and-key", gen::seq_count(k, l), move |idx, ctx| {
            let mut seq = vec![];
            gen::nth_seq(k, l, idx, &mut seq);
            let mut body = vec![];
            gen::concat(gen::B11, &seq, &mut body);
            let mut d = b"[1,\"".to_vec();
            d.extend_from_slice(&body);
            d.extend_from_slice(b"\",2]");
            check_iter(ctx, &d, false);
            let mut d = b"{\"a\":1,\"".to_vec();
            d.extend_from_slice(&body);
            d.extend_from_slice(b"\":2,\"z\":\"");
            d.extend_from_slice(&body);
            d.extend_from_slice(b"\"}");
            check_iter(ctx, &d, false);
        }));
    }
    v
}

// ------------------------------------------------------------------------------------------
// C14

pub const C14_PATHS: &[&[(&str, usize)]] = &[
    // (key or "", index) - a segment is a key if the string is non-empty or index == usize::MAX
    &[("a", 0)],
    &[("b", 0)],
    &[("", 0)],
    &[("", 1)],
    &[("a", 0), ("a", 0)],
    &[("a", 0), ("", 0)],
    &[("a", 0), ("", 1)],
    &[("", 0), ("a", 0)],
    &[("", 1), ("", 0)],
    &[("", 0), ("", 0)],
    &[("b", 0), ("a", 0)],
];

fn c14_path(p: &[(&str, usize)]) -> Vec<Seg> {
    p.iter().map(|(k, i)| if k.is_empty() { Seg::Idx(*i) } else { Seg::Key(k.to_string()) }).collect()
}

pub fn check_validating(ctx: &mut Ctx, input: &[u8], paths: &[Vec<Seg>], with_iters: bool) {
    let mut any = false;
    for path in paths {
        let ptr = to_pointer(path);
        let want = ref_get(input, path);
        for i in [0usize, 6, 3] {
            let r = guard(|| run_get(i, input, &ptr));
            ctx.state();
            ctx.call();
            let name = GET_EPS[i];
            ctx.tr(|t| match &r {
                Ok(Some(GetObs::Span(a, b, _))) => {
                    t.u64(*a as u64);
                    t.u64(*b as u64)
                }
                Ok(Some(GetObs::Detached(x))) => t.bytes(x),
                Ok(Some(GetObs::Err { .. })) => t.bytes(b"E"),
                _ => t.bytes(b"?"),
            });
            match r {
                Err(p) => ctx.violation(&format!("panic/{name}"), json!({"entry": name, "input": show(input), "path": path_str(path), "panic": p})),
                Ok(None) => {}
                Ok(Some(GetObs::Err { .. })) => ctx.outcome(if want.is_ok() { "err(reference would accept the prefix)" } else { "err" }),
                Ok(Some(GetObs::Detached(x))) if i == 3 && want.map(|(a, b)| &input[a..b] == x.as_slice()).unwrap_or(false) => {
                    any = true;
                    ctx.outcome("ok:validated-prefix(owned carrier copy)")
                }
                Ok(Some(GetObs::Detached(x))) => ctx.violation(
                    &format!("span-outside-input/{name}"),
                    json!({"entry": name, "input": show(input), "path": path_str(path), "observed_text": String::from_utf8_lossy(&x)}),
                ),
                Ok(Some(GetObs::Span(a, b, raw))) => {
                    any = true;
                    let frag_ok = std::str::from_utf8(&raw).is_ok() && refjson::parse_doc(&raw, RMode::Grammar).is_ok();
                    if !frag_ok {
                        ctx.outcome("VIOL:malformed-fragment");
                        ctx.violation(
                            &format!("malformed-fragment/{name}"),
                            json!({"entry": name, "input": show(input), "path": path_str(path), "fragment": show(&raw)}),
                        );
                    } else {
                        match want {
                            Ok(s) if s == (a, b) => ctx.outcome("ok:validated-prefix"),
                            Ok(s) => {
                                ctx.outcome("VIOL:wrong-span");
                                ctx.violation(
                                    &format!("wrong-span/{name}"),
                                    json!({"entry": name, "input": show(input), "path": path_str(path), "expected_span": [s.0, s.1], "observed_span": [a, b]}),
                                );
                            }
                            Err(why) => {
                                ctx.outcome("VIOL:traversed-malformed");
                                ctx.violation(
                                    &format!("traversed-malformed-prefix/{name}/{:?}", why),
                                    json!({"entry": name, "input": show(input), "path": path_str(path), "observed_span": [a, b],
                                           "observed_text": String::from_utf8_lossy(&raw), "reference": format!("{:?}: something before the returned value is malformed or the path does not resolve", why)}),
                                );
                            }
                        }
                    }
                }
            }
        }
    }
    // get_many (checked): every returned slot must be what the validating walker finds
    for combo in [[0usize, 1], [0, 4], [2, 3], [3, 8]] {
        let sel: Vec<Vec<Seg>> = combo.iter().filter_map(|i| paths.get(*i).cloned()).collect();
        if sel.len() < 2 || !shape_consistent(&sel.iter().collect::<Vec<_>>()) {
            continue;
        }
        let r = guard(|| {
            let mut tree = PointerTree::new();
            for p in &sel {
                tree.add_path(to_pointer(p).iter());
            }
            sonic_rs::get_many(input, &tree)
                .map(|v| v.iter().map(|o| o.as_ref().map(|lv| (lv_span(lv, input), lv.as_raw_str().as_bytes().to_vec()))).collect::<Vec<_>>())
                .map_err(|_| ())
        });
        ctx.state();
        ctx.call();
        match r {
            Err(p) => ctx.violation("panic/get_many", json!({"input": show(input), "panic": p})),
            Ok(Err(())) => ctx.outcome("get_many:err"),
            Ok(Ok(slots)) => {
                any = true;
                let mut bad = None;
                for (p, s) in sel.iter().zip(slots.iter()) {
                    if let Some((span, raw)) = s {
                        let frag_ok = std::str::from_utf8(raw).is_ok() && refjson::parse_doc(raw, RMode::Grammar).is_ok();
                        let want = ref_get(input, p);
                        if !frag_ok {
                            bad = Some(format!("slot {} holds a malformed fragment {:?}", path_str(p), String::from_utf8_lossy(raw)));
                        } else if span.is_none() {
                            bad = Some(format!("slot {} is not a sub-slice of the input", path_str(p)));
                        } else if want.ok() != *span {
                            bad = Some(format!("slot {}: span {:?} but the validating walker gives {:?}", path_str(p), span, want));
                        }
                    }
                }
                match bad {
                    None => ctx.outcome("get_many:ok"),
                    Some(m) => {
                        ctx.outcome("VIOL:get_many");
                        ctx.violation("get_many-hands-out-unvalidated", json!({"input": show(input), "paths": sel.iter().map(|p| path_str(p)).collect::<Vec<_>>(), "mismatch": m}));
                    }
                }
            }
        }
    }
    // get_by_schema: Ok implies the root object is well-formed as a whole
    {
        let r = guard(|| {
            let schema: Value = sonic_rs::json!({"a": null, "b": {"a": null}});
            sonic_rs::get_by_schema(input, schema).map(|v| sonic_rs::to_string(&v).unwrap_or_default()).map_err(|_| ())
        });
        ctx.state();
        ctx.call();
        match r {
            Err(p) => ctx.violation("panic/get_by_schema", json!({"input": show(input), "panic": p})),
            Ok(Err(())) => ctx.outcome("schema:err"),
            Ok(Ok(out)) => {
                any = true;
                match refjson::parse_value_at(input, 0, RMode::Grammar) {
                    Ok(n) if std::str::from_utf8(&input[..n.end]).is_ok() => {
                        // values copied into the schema must be fully decodable
                        if refjson::parse_doc(out.as_bytes(), RMode::Decode).is_err() {
                            ctx.violation("get_by_schema-output-malformed", json!({"input": show(input), "output": out}));
                        } else {
                            ctx.outcome("schema:ok");
                        }
                    }
                    _ => {
                        ctx.outcome("VIOL:schema");
                        ctx.violation("get_by_schema-accepts-malformed", json!({"input": show(input), "output": out}));
                    }
                }
            }
        }
    }
    if with_iters {
        check_iter(ctx, input, false);
    }
    if any {
        ctx.nontrivial();
    }
}

pub fn seed_docs() -> Vec<&'static [u8]> {
    vec![
        br#"{"a":{"a":[1,"x\"]"],"b":-1.5e3},"b":[[0,{"a":null}],"\u00e9\ud83d\ude00"],"c":true}"#,
        br#"[{"a":"0123456789012345678901234567890123456789","b":[[]]},[{"a":0.000000000000000000000000000000001}, "}{" ] ]"#,
        b"{ \"a\" : [ 1 , 2 ] ,\n\t\"b\" : { \"a\" : \"\xc3\xa9\" } }",
        br#"[12345678901234567890123456789012.5,{"a":[false,"\\"]},"zzzzzzzzzzzzzzzzzzzzzzzzzzzzzzzzzzzz\\\""]"#,
    ]
}

pub fn families_c14(tier: Tier) -> Vec<Family> {
    let q = tier == Tier::Quick;
    let paths: Vec<Vec<Seg>> = C14_PATHS.iter().map(|p| c14_path(p)).collect();
    let mut v = vec![];
    // (i) raw token sequences
    {
        let k = gen::T16.len() as u64;
        let l = if q { 4 } else { 6 };
        let p = paths.clone();
        v.push(Family::new("t16-full", gen::seq_count(k, l), move |idx, ctx| {
            let mut seq = vec![];
            gen::nth_seq(k, l, idx, &mut seq);
            let mut d = vec![];
            gen::concat(gen::T16, &seq, &mut d);
            check_validating(ctx, &d, &p, true);
        }));
    }
    // (ii) an arbitrary fragment E before / at / after the target
    let templates: Vec<(&'static [u8], &'static [u8], Vec<Seg>)> = vec![
        (b"{\"x\":", b",\"a\":1}", vec![Seg::Key("a".into())]),
        (b"{\"a\":", b"}", vec![Seg::Key("a".into())]),
        (b"{\"a\":1,\"x\":", b"}", vec![Seg::Key("a".into())]),
        (b"[", b",1]", vec![Seg::Idx(1)]),
        (b"[1,", b"]", vec![Seg::Idx(0)]),
        (b"[1,", b"]", vec![Seg::Idx(1)]),
        (b"{\"b\":[", b",{\"a\":2}]}", vec![Seg::Key("b".into()), Seg::Idx(1), Seg::Key("a".into())]),
        (b"{", b":0,\"a\":1}", vec![Seg::Key("a".into())]),
    ];
    let mk = |name: &str, alpha: &'static [&'static [u8]], l: u32, pre: &'static [u8], post: &'static [u8], templates: Vec<(&'static [u8], &'static [u8], Vec<Seg>)>| {
        let k = alpha.len() as u64;
        let nt = templates.len() as u64;
        Family::new(name, gen::seq_count(k, l) * nt, move |idx, ctx| {
            let (a, b, path) = &templates[(idx % nt) as usize];
            let mut seq = vec![];
            gen::nth_seq(k, l, idx / nt, &mut seq);
            let mut body = vec![];
            gen::concat(alpha, &seq, &mut body);
            let mut d = a.to_vec();
            d.extend_from_slice(pre);
            d.extend_from_slice(&body);
            d.extend_from_slice(post);
            d.extend_from_slice(b);
            check_validating(ctx, &d, std::slice::from_ref(path), false);
        })
    };
    v.push(mk("embedded/b11-string", gen::B11, if q { 3 } else { 5 }, b"\"", b"\"", templates.clone()));
    v.push(mk("embedded/n10", gen::N10, if q { 4 } else { 6 }, b"", b"", templates.clone()));
    v.push(mk("embedded/t16", gen::T16, if q { 3 } else { 4 }, b"", b"", templates.clone()));
    // digit runs of every length followed by every short tail, embedded (number skipper block edges)
    {
        let k = gen::N10.len() as u64;
        let tl = if q { 4 } else { 5 };
        let tails = gen::seq_count(k, tl);
        let max_run: u64 = if q { 70 } else { 140 };
        let t2 = templates.clone();
        let nt = 2u64;
        v.push(Family::new("embedded/digit-run+n10-tail", (max_run + 1) * tails * nt, move |idx, ctx| {
            let (a, b, path) = &t2[if idx % nt == 0 { 0 } else { 3 }];
            let i = idx / nt;
            let run = i / tails;
            let mut seq = vec![];
            gen::nth_seq(k, tl, i % tails, &mut seq);
            let mut tail = vec![];
            gen::concat(gen::N10, &seq, &mut tail);
            let mut d = a.to_vec();
            d.extend((0..run).map(|i| b'1' + (i % 9) as u8));
            d.extend_from_slice(&tail);
            d.extend_from_slice(b);
            check_validating(ctx, &d, std::slice::from_ref(path), false);
        }));
    }
    // plain string runs of every length followed by every short B11 tail, embedded
    {
        let k = gen::B11.len() as u64;
        let tl = if q { 2 } else { 3 };
        let tails = gen::seq_count(k, tl);
        let max_run: u64 = if q { 70 } else { 140 };
        let t2 = templates.clone();
        v.push(Family::new("embedded/plain-run+b11-tail", (max_run + 1) * tails * 2, move |idx, ctx| {
            let (a, b, path) = &t2[if idx % 2 == 0 { 0 } else { 3 }];
            let i = idx / 2;
            let run = i / tails;
            let mut seq = vec![];
            gen::nth_seq(k, tl, i % tails, &mut seq);
            let mut tail = vec![];
            gen::concat(gen::B11, &seq, &mut tail);
            let mut d = a.to_vec();
            d.push(b'"');
            d.extend((0..run).map(|i| b'a' + (i % 26) as u8));
            d.extend_from_slice(&tail);
            d.push(b'"');
            d.extend_from_slice(b);
            check_validating(ctx, &d, std::slice::from_ref(path), false);
        }));
    }
    // (ii-0) nesting around the skipper's depth limit (512) with a defect in the innermost
    // container, in a member that is skipped on the way and in the member that is returned
    {
        let mut inputs: Vec<(Vec<u8>, Vec<Vec<Seg>>)> = vec![];
        let inners: [&[u8]; 8] = [b"[1 2]", b"{\"k\" 1}", b"[tru]", b"[1,]", b"\"\x01\"", b"[1]", b"1 2", b"{\"k\":1,}"];
        let depths: Vec<usize> = if q { vec![255, 510, 511, 512, 513] } else { (505..=520).chain([100, 255, 256, 1000]).collect() };
        for n in depths {
            for inner in inners {
                for obj in [false, true] {
                    let (open, close): (&[u8], &[u8]) = if obj { (b"{\"k\":", b"}") } else { (b"[", b"]") };
                    let mut nest = vec![];
                    for _ in 0..n {
                        nest.extend_from_slice(open);
                    }
                    nest.extend_from_slice(inner);
                    for _ in 0..n {
                        nest.extend_from_slice(close);
                    }
                    let cat = |parts: &[&[u8]]| parts.concat();
                    inputs.push((cat(&[b"{\"x\":", &nest, b",\"a\":1}"]), vec![vec![Seg::Key("a".into())]]));
                    inputs.push((cat(&[b"{\"a\":", &nest, b"}"]), vec![vec![Seg::Key("a".into())]]));
                    inputs.push((cat(&[b"[", &nest, b",7]"]), vec![vec![Seg::Idx(1)], vec![Seg::Idx(0)]]));
                }
            }
        }
        v.push(Family::of_vec("nesting-at-the-depth-limit x inner defect", inputs, |(d, sp), ctx| {
            std::thread::scope(|s| {
                std::thread::Builder::new()
                    .stack_size(512 << 20)
                    .spawn_scoped(s, || {
                        // lookups: Ok only for validated text (a depth-limit error is always fine)
                        check_validating(ctx, d, sp, false);
                        // iterators: a member that is not a well-formed value is never yielded
                        if d[0] == b'[' {
                            let first_ok = refjson::parse_value_at(d, 1, RMode::Grammar).is_ok();
                            let r = guard(|| sonic_rs::to_array_iter(&d[..]).next().map(|r| r.is_ok()));
                            ctx.state();
                            ctx.call();
                            match r {
                                Ok(Some(true)) if !first_ok => {
                                    ctx.outcome("VIOL:deep-iter");
                                    ctx.violation("iterator-yields-malformed-member", json!({"input_len": d.len(), "input_tail": show(&d[d.len() / 2 - 12..d.len() / 2 + 12])}));
                                }
                                Ok(_) => ctx.outcome("deep-iter:ok"),
                                Err(p) => ctx.violation("panic/deep-iter", json!({"input_len": d.len(), "panic": p})),
                            }
                        }
                    })
                    .unwrap()
                    .join()
                    .unwrap();
            });
        }));
    }
    // (ii-00) string bodies (escape head + plain run + every B11 tail) as a key that is passed on the
    // way, as the key that is matched, and as a value that is skipped
    {
        let (heads, max_run, tl) = if q { (2usize, 70u64, 3u32) } else { (3, 140, 3) };
        v.push(Family::new("string-head-run-tail as key / skipped value", gen::head_run_tail_count(heads, max_run, tl), move |idx, ctx| {
            let body = gen::head_run_tail_body(heads, max_run, tl, idx);
            let cat = |parts: &[&[u8]]| parts.concat();
            let pa = [vec![Seg::Key("a".into())]];
            check_validating(ctx, &cat(&[b"{\"", &body, b"\":1,\"a\":2 ,\"pad\":\"pppppppppppppppppppppppppppppppppppppppp\"}"]), &pa, false);
            check_validating(ctx, &cat(&[b"{\"x\":\"", &body, b"\",\"a\":2 ,\"pad\":\"pppppppppppppppppppppppppppppppppppppppp\"}"]), &pa, false);
        }));
    }
    for (si, seed) in gen::SHORT_SEEDS.iter().enumerate() {
        let seed = seed.as_bytes();
        let root = refjson::parse_doc(seed, RMode::Decode).expect("seed");
        let sp: Vec<Vec<Seg>> = refjson::all_paths(&root).into_iter().filter(|p| !p.is_empty()).collect();
        v.push(Family::new(&format!("byte-neighbourhood/seed{si}(all 256 values)"), gen::byte_neighbourhood_count(seed), move |idx, ctx| {
            check_validating(ctx, &gen::byte_neighbourhood(seed, idx), &sp, true)
        }));
    }
    // (ii-a) number shapes and non-minimal empty containers, every path of each
    v.push(Family::of_vec("number-shapes+spaced-empties", shape_docs(), |d, ctx| {
        if let Ok(root) = refjson::parse_doc(d, RMode::Decode) {
            let sp: Vec<Vec<Seg>> = refjson::all_paths(&root).into_iter().filter(|p| !p.is_empty()).collect();
            check_validating(ctx, d, &sp, true);
        }
    }));
    // (ii-b) corpus documents cut at evenly spaced points and with one byte replaced there (long
    // inputs: every traversal crosses many SIMD blocks)
    {
        let mut inputs: Vec<(Vec<u8>, Vec<Vec<Seg>>)> = vec![];
        for (_, d) in gen::corpus() {
            if d.len() > 700_000 {
                continue;
            }
            let Ok(root) = refjson::parse_doc(&d, RMode::Decode) else { continue };
            let all = refjson::all_paths(&root);
            let stride = (all.len() / 12).max(1);
            let sp: Vec<Vec<Seg>> = all.into_iter().filter(|p| !p.is_empty()).step_by(stride).collect();
            let n = if q { 10 } else { 60 };
            for c in 1..n {
                let cut = d.len() * c / n;
                inputs.push((d[..cut].to_vec(), sp.clone()));
                for b in [b'"', b'\\', b'}', b',', 0xffu8, b'0'] {
                    let mut m = d.clone();
                    m[cut] = b;
                    inputs.push((m, sp.clone()));
                }
            }
        }
        v.push(Family::of_vec("corpus-files/cuts+substitutions", inputs, |(d, sp), ctx| check_validating(ctx, d, sp, true)));
    }
    // (iii) seed neighbourhoods: every prefix and every single-byte substitution
    for (si, seed) in seed_docs().into_iter().enumerate() {
        let root = refjson::parse_doc(seed, RMode::Decode).expect("seed is well-formed");
        let mut sp = refjson::all_paths(&root);
        sp.retain(|p| !p.is_empty());
        let n = seed.len() as u64;
        let interesting: Vec<u8> = if q {
            b"\"\\{}[],:0-.eE tn\x00\x1f\x7f\x80\xff\xc3".to_vec()
        } else {
            (0..=255u8).collect()
        };
        let vals: u64 = interesting.len() as u64;
        let sp2 = sp.clone();
        v.push(Family::new(&format!("seed{}-prefixes", si), n + 1, move |idx, ctx| {
            check_validating(ctx, &seed[..idx as usize], &sp2, true);
        }));
        v.push(Family::new(&format!("seed{}-substitutions", si), n * vals, move |idx, ctx| {
            let pos = (idx / vals) as usize;
            let b = interesting[(idx % vals) as usize];
            let mut d = seed.to_vec();
            if d[pos] == b {
                return;
            }
            d[pos] = b;
            check_validating(ctx, &d, &sp, true);
        }));
    }
    v
}
