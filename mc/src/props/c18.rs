//! C18 - lazily cached decodings are correct and leak-free under concurrent readers.
//! Engine E4: loom explores every interleaving (DPOR) of the atomic operations of the two
//! lazy caches, which reach loom through the `sonic_rs_verif` hook; an outer loop enumerates
//! every *failure plan* (which weak compare-exchange of which thread fails spuriously), because
//! loom 0.7.2 implements compare_exchange_weak as the strong one.
//!
//! Only compiled with the harness feature `loom`; the sonic-rs it links is built with
//! `--cfg sonic_rs_verif`.

use std::sync::{
    atomic::{AtomicU64, AtomicUsize, Ordering as O},
    Arc, Mutex,
};

use loom::sync::atomic::AtomicPtr as LoomPtr;
use serde_json::json;
use sonic_rs::{JsonContainerTrait, JsonValueTrait, LazyValue, OwnedLazyValue};

use crate::{
    engine::{guard, Ctx, Family, Tier},
    fence,
};

// ------------------------------------------------------------------------------------------
// the functions the hook in /repo/src/util/verif_sync.rs forwards to

struct Slot {
    atom: LoomPtr<()>,
}

/// per-payload causality tokens: written by the publisher before its CAS, read after every load
/// that returns the pointer.  A missing release/acquire edge is a loom causality violation.
struct Tok(loom::cell::UnsafeCell<u8>);
unsafe impl Send for Tok {}
unsafe impl Sync for Tok {}
impl Tok {
    fn with(&self, f: impl FnOnce(*const u8)) {
        self.0.with(f)
    }
    fn with_mut(&self, f: impl FnOnce(*mut u8)) {
        self.0.with_mut(f)
    }
}
static TOKENS: Mutex<Vec<(usize, Arc<Tok>)>> = Mutex::new(Vec::new());

fn token_for(p: usize, create: bool) -> Option<Arc<Tok>> {
    let mut t = TOKENS.lock().unwrap();
    if let Some((_, c)) = t.iter().find(|(q, _)| *q == p) {
        return Some(c.clone());
    }
    if create {
        let c = Arc::new(Tok(loom::cell::UnsafeCell::new(0u8)));
        t.push((p, c.clone()));
        Some(c)
    } else {
        None
    }
}

/// which weak CAS (counted per loom thread) fails spuriously in this run
static PLAN: AtomicU64 = AtomicU64::new(0);
static WEAK_SEEN: AtomicUsize = AtomicUsize::new(0);
thread_local! {
    static DUMMY: u8 = const { 0 };
}

fn weak_index() -> usize {
    // loom runs its threads as coroutines: a global counter in program order of the current
    // schedule is what identifies "the k-th weak CAS"
    WEAK_SEEN.fetch_add(1, O::Relaxed)
}

#[no_mangle]
pub fn sonic_rs_verif_atomic_new(init: *mut ()) -> usize {
    let prev = fence::ledger_track(false);
    let b = Box::new(Slot { atom: LoomPtr::new(init) });
    let h = Box::into_raw(b) as usize;
    fence::ledger_track(prev);
    h
}

#[no_mangle]
pub fn sonic_rs_verif_atomic_drop(handle: usize) {
    let prev = fence::ledger_track(false);
    unsafe { drop(Box::from_raw(handle as *mut Slot)) };
    fence::ledger_track(prev);
}

#[no_mangle]
pub fn sonic_rs_verif_atomic_load(handle: usize, order: std::sync::atomic::Ordering) -> *mut () {
    let prev = fence::ledger_track(false);
    let s = unsafe { &*(handle as *const Slot) };
    let p = s.atom.load(order);
    if !p.is_null() {
        // the reader is about to dereference p: the publisher's write must happen-before this
        if let Some(t) = token_for(p as usize, false) {
            t.with(|_| ());
        }
    }
    fence::ledger_track(prev);
    p
}

#[no_mangle]
pub fn sonic_rs_verif_atomic_load_exclusive(handle: usize) -> *mut () {
    let prev = fence::ledger_track(false);
    let s = unsafe { &*(handle as *const Slot) };
    let p = unsafe { s.atom.unsync_load() };
    fence::ledger_track(prev);
    p
}

#[no_mangle]
pub fn sonic_rs_verif_atomic_store_exclusive(handle: usize, value: *mut ()) {
    let prev = fence::ledger_track(false);
    let s = unsafe { &mut *(handle as *mut Slot) };
    s.atom.with_mut(|p| *p = value);
    fence::ledger_track(prev);
}

#[no_mangle]
pub fn sonic_rs_verif_atomic_swap(handle: usize, value: *mut (), order: std::sync::atomic::Ordering) -> *mut () {
    let prev = fence::ledger_track(false);
    let s = unsafe { &*(handle as *const Slot) };
    if !value.is_null() {
        if let Some(t) = token_for(value as usize, true) {
            t.with_mut(|_| ());
        }
    }
    let p = s.atom.swap(value, order);
    if !p.is_null() {
        if let Some(t) = token_for(p as usize, false) {
            t.with(|_| ());
        }
    }
    fence::ledger_track(prev);
    p
}

#[no_mangle]
pub fn sonic_rs_verif_atomic_store(handle: usize, value: *mut (), order: std::sync::atomic::Ordering) {
    let prev = fence::ledger_track(false);
    let s = unsafe { &*(handle as *const Slot) };
    if !value.is_null() {
        if let Some(t) = token_for(value as usize, true) {
            t.with_mut(|_| ());
        }
    }
    s.atom.store(value, order);
    fence::ledger_track(prev);
}

#[no_mangle]
pub fn sonic_rs_verif_atomic_cas(
    handle: usize,
    current: *mut (),
    new: *mut (),
    success: std::sync::atomic::Ordering,
    failure: std::sync::atomic::Ordering,
    weak: bool,
) -> Result<*mut (), *mut ()> {
    let prev = fence::ledger_track(false);
    let s = unsafe { &*(handle as *const Slot) };
    let r = (|| {
        if weak {
            let k = weak_index();
            if k < 64 && (PLAN.load(O::Relaxed) >> k) & 1 == 1 {
                // spurious failure: the operation did not happen, the current value is reported
                return Err(s.atom.load(failure));
            }
        }
        if !new.is_null() {
            // the payload behind `new` was written by this thread before publishing it
            if let Some(t) = token_for(new as usize, true) {
                t.with_mut(|_| ());
            }
        }
        let r = s.atom.compare_exchange(current, new, success, failure);
        if r.is_err() && !new.is_null() {
            // the losing payload is freed by its owner right away and its address may be reused
            TOKENS.lock().unwrap().retain(|(q, _)| *q != new as usize);
        }
        if let Err(p) = r {
            if !p.is_null() {
                if let Some(t) = token_for(p as usize, false) {
                    t.with(|_| ());
                }
            }
        }
        r
    })();
    fence::ledger_track(prev);
    r
}

// ------------------------------------------------------------------------------------------
// scenarios

static ITER: AtomicU64 = AtomicU64::new(0);

#[derive(Clone, Copy, Debug)]
pub enum Scn {
    LazyStr2,
    LazyStr3,
    LazyStrCloneDrop,
    OwnedGet2,
    OwnedGet3,
    OwnedMixed,
    OwnedCloneRead,
    OwnedReaderVsCloneDrop,
    /// two readers fill the cache concurrently, then the (again exclusive) owner mutates the same
    /// node through &mut and drops it: the cache filled under &self is consumed exactly once
    OwnedReadThenMutate,
    /// a reader keeps the reference to a child it looked up while another thread clones the
    /// parent and drops the clone: the cache the reference points into stays with the parent
    OwnedHoldChildVsCloneDrop,
}
pub const SCENARIOS: &[Scn] = &[
    Scn::LazyStr2,
    Scn::LazyStr3,
    Scn::LazyStrCloneDrop,
    Scn::OwnedGet2,
    Scn::OwnedGet3,
    Scn::OwnedMixed,
    Scn::OwnedCloneRead,
    Scn::OwnedReaderVsCloneDrop,
    Scn::OwnedReadThenMutate,
    Scn::OwnedHoldChildVsCloneDrop,
];

const ESC: &str = "\"a\\n\\u00e9\\\"z\"";
const ESC_DECODED: &str = "a\n\u{e9}\"z";
const ARR: &str = "[\"x\\ty\", 2, {\"k\": [true]}]";

/// run subject code with allocation tracking on
fn subject<T>(f: impl FnOnce() -> T) -> T {
    let prev = fence::ledger_track(true);
    let r = f();
    fence::ledger_track(prev);
    r
}

fn lazy_value() -> LazyValue<'static> {
    // an escaped string obtained through get: HasEsc::Yes, cache empty
    let lv = sonic_rs::get(ESC, sonic_rs::pointer![].iter()).expect("valid");
    lv
}

fn owned_raw() -> OwnedLazyValue {
    let lv = sonic_rs::get(ARR, sonic_rs::pointer![].iter()).expect("valid");
    OwnedLazyValue::from(lv)
}

fn body(scn: Scn) {
    ITER.fetch_add(1, O::Relaxed);
    WEAK_SEEN.store(0, O::Relaxed);
    TOKENS.lock().unwrap().clear();
    fence::ledger_reset();
    let spawn = |f: Box<dyn FnOnce() + Send>| loom::thread::spawn(move || f());
    match scn {
        Scn::LazyStr2 | Scn::LazyStr3 => {
            let n = if matches!(scn, Scn::LazyStr2) { 2 } else { 3 };
            let v = Arc::new(subject(lazy_value));
            let hs: Vec<_> = (0..n)
                .map(|_| {
                    let v = v.clone();
                    spawn(Box::new(move || {
                        let ok = subject(|| v.as_str() == Some(ESC_DECODED));
                        assert!(ok, "reader got a wrong decoding");
                        // hold the first borrow across another cache access (a scheduling point)
                        let ok2 = subject(|| {
                            let first = v.as_str();
                            let second = v.as_str();
                            first == Some(ESC_DECODED) && second == Some(ESC_DECODED) && first.map(|s| s.as_ptr()) == second.map(|s| s.as_ptr())
                        });
                        assert!(ok2, "the decoding changed or moved between two reads");
                        subject(move || drop(v));
                    }))
                })
                .collect();
            for h in hs {
                h.join().unwrap();
            }
            if std::env::var("C18_DEBUG").is_ok() {
                eprintln!("after joins: {:?}", fence::ledger_live_sizes());
            }
            subject(move || drop(v));
            if std::env::var("C18_DEBUG").is_ok() {
                eprintln!("after final drop: {:?}", fence::ledger_live_sizes());
            }
        }
        Scn::LazyStrCloneDrop => {
            let v = Arc::new(subject(lazy_value));
            let v1 = v.clone();
            let v2 = v.clone();
            let a = spawn(Box::new(move || {
                let ok = subject(|| v1.as_str() == Some(ESC_DECODED));
                assert!(ok, "reader got a wrong decoding");
                subject(move || drop(v1));
            }));
            let b = spawn(Box::new(move || {
                let c = subject(|| (*v2).clone());
                let ok = subject(|| c.as_str() == Some(ESC_DECODED));
                assert!(ok, "clone got a wrong decoding");
                subject(move || drop(c));
                subject(move || drop(v2));
            }));
            a.join().unwrap();
            b.join().unwrap();
            let ok = subject(|| v.as_str() == Some(ESC_DECODED));
            assert!(ok, "reader got a wrong decoding");
            subject(move || drop(v));
        }
        Scn::OwnedGet2 | Scn::OwnedGet3 => {
            let n = if matches!(scn, Scn::OwnedGet2) { 2 } else { 3 };
            let v = Arc::new(subject(owned_raw));
            let hs: Vec<_> = (0..n)
                .map(|i| {
                    let v = v.clone();
                    spawn(Box::new(move || {
                        let want = if i % 2 == 0 { "\"x\\ty\"" } else { "2" };
                        let ok = subject(|| {
                            // the first child reference is held across a second cache access
                            let first = v.get(i % 2);
                            let second = v.get((i + 1) % 2);
                            second.is_some() && first.map(|c| sonic_rs::to_string(c).unwrap() == want) == Some(true)
                        });
                        assert!(ok, "child read through the shared cache is wrong");
                        subject(move || drop(v));
                    }))
                })
                .collect();
            for h in hs {
                h.join().unwrap();
            }
            let len = subject(|| v.as_array().map(|a| a.len()));
            assert_eq!(len, Some(3));
            subject(move || drop(v));
        }
        Scn::OwnedMixed => {
            let v = Arc::new(subject(owned_raw));
            let v1 = v.clone();
            let v2 = v.clone();
            let a = spawn(Box::new(move || {
                let l = subject(|| v1.as_array().map(|a| a.len()));
                assert_eq!(l, Some(3));
                subject(move || drop(v1));
            }));
            let b = spawn(Box::new(move || {
                let ok = subject(|| v2.get(0usize).and_then(|c| c.as_str()) == Some("x\ty"));
                assert!(ok, "child string is wrong");
                subject(move || drop(v2));
            }));
            a.join().unwrap();
            b.join().unwrap();
            subject(move || drop(v));
        }
        Scn::OwnedCloneRead => {
            let v = Arc::new(subject(owned_raw));
            let v1 = v.clone();
            let v2 = v.clone();
            let a = spawn(Box::new(move || {
                let ok = subject(|| v1.get(2usize).map(|c| sonic_rs::to_string(c).unwrap() == "{\"k\": [true]}") == Some(true));
                assert!(ok, "child read is wrong");
                subject(move || drop(v1));
            }));
            let b = spawn(Box::new(move || {
                let c = subject(|| (*v2).clone());
                let l = subject(|| c.as_array().map(|a| a.len()));
                assert_eq!(l, Some(3));
                let ok = subject(|| sonic_rs::to_string(&c).unwrap() == ARR);
                assert!(ok, "clone does not serialize to the source text");
                subject(move || drop(c));
                subject(move || drop(v2));
            }));
            a.join().unwrap();
            b.join().unwrap();
            subject(move || drop(v));
        }
        Scn::OwnedHoldChildVsCloneDrop => {
            let v = Arc::new(subject(owned_raw));
            let v1 = v.clone();
            let v2 = v.clone();
            let a = spawn(Box::new(move || {
                let ok = subject(|| {
                    let child = v1.get(0usize);
                    // a second access to the parent (a scheduling point) while the reference is held
                    let n = v1.as_array().map(|a| a.len());
                    let first = child.and_then(|c| c.as_str()) == Some("x\ty");
                    let again = child.and_then(|c| c.as_str()) == Some("x\ty");
                    n == Some(3) && first && again
                });
                assert!(ok, "child reference reads wrong");
                subject(move || drop(v1));
            }));
            let b = spawn(Box::new(move || {
                let c = subject(|| (*v2).clone());
                subject(move || drop(c));
                subject(move || drop(v2));
            }));
            a.join().unwrap();
            b.join().unwrap();
            // and sequentially: look up, clone, drop the clone, read through the old reference
            let ok = subject(|| {
                let child = v.get(2usize);
                let c = (*v).clone();
                drop(c);
                child.map(|c| sonic_rs::to_string(c).unwrap() == "{\"k\": [true]}") == Some(true)
            });
            assert!(ok, "child reference reads wrong after clone + drop of the clone");
            subject(move || drop(v));
        }
        Scn::OwnedReadThenMutate => {
            let v = Arc::new(subject(owned_raw));
            let hs: Vec<_> = (0..2)
                .map(|k| {
                    let v = v.clone();
                    spawn(Box::new(move || {
                        let ok = subject(|| if k == 0 { v.get(0usize).is_some() } else { v.as_array().map(|a| a.len()) == Some(3) });
                        assert!(ok, "read is wrong");
                        subject(move || drop(v));
                    }))
                })
                .collect();
            for h in hs {
                h.join().unwrap();
            }
            use sonic_rs::JsonValueMutTrait;
            let mut own = Arc::try_unwrap(v).ok().expect("all readers are gone");
            let ok = subject(|| {
                let a = own.get_mut(1usize).is_some();
                let b = own.as_array_mut().map(|a| a.len()) == Some(3);
                let c = own.pointer_mut([sonic_rs::PointerNode::Index(2), sonic_rs::PointerNode::Key("k".into())].iter()).is_some();
                a && b && c
            });
            assert!(ok, "mutable access after the reads is wrong");
            let s = subject(|| sonic_rs::to_string(&own).unwrap());
            assert!(s.contains("true") && s.contains("x\\ty"), "value after read-then-mutate serializes as {s}");
            subject(move || drop(own));
        }
        Scn::OwnedReaderVsCloneDrop => {
            let v = Arc::new(subject(owned_raw));
            let early = subject(|| (*v).clone());
            let v1 = v.clone();
            let a = spawn(Box::new(move || {
                let ok = subject(|| v1.get(1usize).map(|c| sonic_rs::to_string(c).unwrap() == "2") == Some(true));
                assert!(ok, "child read is wrong");
                subject(move || drop(v1));
            }));
            let b = spawn(Box::new(move || {
                let l = subject(|| early.get(0usize).is_some());
                assert!(l);
                subject(move || drop(early));
            }));
            a.join().unwrap();
            b.join().unwrap();
            subject(move || drop(v));
        }
    }
    // every cached decoding (the winner and all losers) has been freed exactly once
    assert!(!fence::ledger_overflowed(), "ledger overflow (harness)");
    assert_eq!(fence::ledger_double_frees(), 0, "a cached decoding was freed twice");
    assert_eq!(fence::ledger_live(), 0, "cached decodings (or other subject allocations) leaked; sizes of the leaked blocks: {:?}", fence::ledger_live_sizes());
}

pub fn run_scenario(ctx: &mut Ctx, scn: Scn, plan: u64, preemption_bound: Option<usize>) {
    PLAN.store(plan, O::Relaxed);
    let before = ITER.load(O::Relaxed);
    // the whole model runs with the fence allocator armed: a reader that still holds a reference
    // into a decoding that another thread frees faults at its next access
    let r = guard(|| {
        fence::armed(|| {
            let mut b = loom::model::Builder::new();
            b.preemption_bound = preemption_bound;
            b.max_branches = 100_000;
            b.check(move || body(scn));
        })
    });
    let schedules = ITER.load(O::Relaxed) - before;
    fence::ledger_track(false);
    ctx.calls(schedules);
    for _ in 0..schedules {
        ctx.state();
    }
    ctx.nontrivial();
    ctx.note(&format!("schedules/{:?}/plan{:b}", scn, plan), schedules);
    let describe = || json!({"scenario": format!("{:?}", scn), "weak_cas_failure_plan_bits": format!("{:b}", plan), "preemption_bound": preemption_bound, "schedules_explored": schedules});
    match r {
        Ok(()) => ctx.outcome(&format!("all-schedules-ok/{:?}", scn)),
        Err(p) => {
            ctx.outcome("VIOL");
            let class = if p.contains("ausality") || p.contains("concurrent") {
                "missing-happens-before"
            } else if p.contains("leaked") || p.contains("freed twice") {
                "cache-ledger"
            } else if p.contains("wrong") || p.contains("does not serialize") {
                "wrong-result"
            } else {
                "schedule-fails"
            };
            ctx.violation(&format!("{}/{:?}", class, scn), json!({"case": describe(), "failure": p.lines().take(6).collect::<Vec<_>>().join(" | ")}));
        }
    }
    ctx.sample(describe);
}

pub fn families(tier: Tier, _variant: &str) -> Vec<Family> {
    let q = tier == Tier::Quick;
    let mut cases: Vec<(Scn, u64, Option<usize>)> = vec![];
    for scn in SCENARIOS {
        let three = matches!(scn, Scn::LazyStr3 | Scn::OwnedGet3);
        let bound = if three { Some(if q { 2 } else { 3 }) } else { None };
        // failure plans: no failure, each single weak CAS failing, all failing (the code under test
        // uses the strong CAS, for which the plan is irrelevant; a regression to the weak one is
        // what the plans are for)
        for plan in [0u64, 1, 2, 3, 4, 7, u64::MAX] {
            cases.push((*scn, plan, bound));
        }
        if three && !q {
            cases.push((*scn, 0, None)); // unbounded DPOR
        }
    }
    vec![Family::of_vec("loom/scenario x failure-plan", cases, |(s, p, b), ctx| run_scenario(ctx, *s, *p, *b))]
}
