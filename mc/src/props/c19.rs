//! C19 - converting through the DOM commutes with converting through text; DOM equality laws.

use std::collections::BTreeMap;

use serde::Serialize;
use serde_json::json;
use sonic_rs::{JsonValueTrait, Value};

use crate::{
    engine::{guard, Ctx, Family, Tier},
    gen::{self, DocGen},
    refjson::{self, Mode as RMode},
    types::Fam,
    walk,
};

fn first_line(e: &impl std::fmt::Display) -> String {
    e.to_string().lines().next().unwrap_or("").to_string()
}

fn sorted(v: &Value) -> String {
    let mut s = String::new();
    walk::dump_value_sorted(v, &mut s);
    s
}

pub fn check_value<T: Fam>(ctx: &mut Ctx, x: &T) {
    ctx.state();
    ctx.calls(6);
    ctx.nontrivial();
    let has_f32 = T::NAME.contains("f32");
    let r = guard(|| -> Result<&'static str, String> {
        let text = sonic_rs::to_string(x);
        let dom = sonic_rs::to_value(x);
        match (&text, &dom) {
            (Ok(s), Ok(v)) => {
                let parsed: Value = sonic_rs::from_str(s).map_err(|e| format!("to_string output {:?} does not parse: {}", s, first_line(&e)))?;
                if !has_f32 {
                    if &parsed != v || v != &parsed {
                        return Err(format!("to_value gives {} but parse(to_string) gives {} (text {:?})", sorted(v), sorted(&parsed), s));
                    }
                    if sorted(v) != sorted(&parsed) {
                        return Err(format!("DOMs compare equal but dump differently: {} vs {}", sorted(v), sorted(&parsed)));
                    }
                }
                // serde_json::Value is order-insensitive for the comparison below
                let a: T = sonic_rs::from_value(v).map_err(|e| format!("from_value(to_value(x)) failed: {}", first_line(&e)))?;
                let b: T = sonic_rs::from_str(s).map_err(|e| format!("from_str(to_string(x)) failed: {} (text {:?})", first_line(&e), s))?;
                let c: T = sonic_rs::from_value(&parsed).map_err(|e| format!("from_value(parse(to_string(x))) failed: {}", first_line(&e)))?;
                if &a != x {
                    return Err(format!("from_value(to_value(x)) = {:?}", a));
                }
                if &b != x {
                    return Err(format!("from_str(to_string(x)) = {:?}", b));
                }
                if &c != x {
                    return Err(format!("from_value(parse(to_string(x))) = {:?}", c));
                }
                // the text route agrees with serde_json's text (same data model)
                if let Ok(sj) = serde_json::to_string(x) {
                    let n1 = refjson::parse_doc(s.as_bytes(), RMode::Decode).map_err(|r| format!("to_string output not well-formed: {:?}", r.reason))?;
                    let n2 = refjson::parse_doc(sj.as_bytes(), RMode::Decode).map_err(|_| "serde_json output not well-formed".to_string())?;
                    let (mut d1, mut d2) = (String::new(), String::new());
                    dump_sorted_node(&n1, &mut d1);
                    dump_sorted_node(&n2, &mut d2);
                    if d1 != d2 && !T::NAME.contains("f32") {
                        return Err(format!("text {:?} denotes something else than serde_json's {:?}", s, sj));
                    }
                }
                Ok("both-routes-agree")
            }
            (Err(_), Err(_)) => Ok("both-routes-fail"),
            (Ok(s), Err(e)) => {
                if T::NAME.contains("128") && has_out_of_range_integer(s) {
                    // documented counterpart: a 128-bit integer outside u64/i64 has no DOM number
                    Ok("documented:128-bit-out-of-range(text ok, DOM error)")
                } else {
                    Err(format!("text route gives {:?} but to_value fails: {}", s, first_line(e)))
                }
            }
            (Err(e), Ok(v)) => Err(format!("to_value gives {} but to_string fails: {}", sorted(v), first_line(e))),
        }
    });
    match r {
        Ok(Ok(o)) => ctx.outcome(o),
        Ok(Err(m)) => {
            ctx.outcome("VIOL");
            ctx.violation(&format!("routes-disagree/{}", T::NAME), json!({"type": T::NAME, "value": format!("{:?}", x), "mismatch": m}))
        }
        Err(p) => ctx.violation(&format!("panic/{}", T::NAME), json!({"type": T::NAME, "value": format!("{:?}", x), "panic": p})),
    }
    ctx.sample(|| json!({"type": T::NAME, "value": format!("{:?}", x)}));
}

/// does the text contain a plain integer literal (value position) that fits neither u64 nor i64
fn has_out_of_range_integer(text: &str) -> bool {
    fn rec(n: &refjson::Node, src: &[u8]) -> bool {
        use refjson::{Kind, Num};
        match &n.kind {
            Kind::Num(Num::F(_)) => !n.text(src).iter().any(|c| matches!(c, b'.' | b'e' | b'E')),
            Kind::Arr(a) => a.iter().any(|x| rec(x, src)),
            Kind::Obj(o) => o.iter().any(|(_, v)| rec(v, src)),
            _ => false,
        }
    }
    match refjson::parse_doc(text.as_bytes(), RMode::Grammar) {
        Ok(n) => rec(&n, text.as_bytes()),
        Err(_) => false,
    }
}

fn dump_sorted_node(n: &refjson::Node, out: &mut String) {
    use refjson::Kind;
    match &n.kind {
        Kind::Obj(o) => {
            let mut items: Vec<(String, String)> = o
                .iter()
                .map(|(k, v)| {
                    let mut s = String::new();
                    dump_sorted_node(v, &mut s);
                    (k.key_str().to_string(), s)
                })
                .collect();
            items.sort();
            out.push('{');
            for (k, s) in items {
                out.push_str(&format!("{:?}:{},", k, s));
            }
            out.push('}');
        }
        Kind::Arr(a) => {
            out.push('[');
            for x in a {
                dump_sorted_node(x, out);
                out.push(',');
            }
            out.push(']');
        }
        _ => n.dump(out),
    }
}

/// the written counterpart table for routes that fail
#[derive(Serialize, Debug)]
struct FloatKey(BTreeMap<String, f64>);

pub fn check_counterparts(ctx: &mut Ctx, which: u64) {
    // (description, text route, dom route, expectation)
    enum Exp {
        TextNullDomErr,
        TextOkDomErr,
        BothErr,
        BothOk,
    }
    fn run<T: Serialize + std::fmt::Debug>(ctx: &mut Ctx, what: &str, x: &T, exp: Exp) {
        ctx.state();
        ctx.calls(2);
        ctx.nontrivial();
        let r = guard(|| (sonic_rs::to_string(x).map_err(|e| first_line(&e)), sonic_rs::to_value(x).map(|v| sorted(&v)).map_err(|e| first_line(&e))));
        match r {
            Err(p) => ctx.violation("panic/counterpart", json!({"case": what, "panic": p})),
            Ok((t, d)) => {
                let ok = match exp {
                    Exp::TextNullDomErr => t.as_deref().map(|s| s.contains("null")).unwrap_or(false) && d.is_err(),
                    Exp::TextOkDomErr => t.is_ok() && d.is_err(),
                    Exp::BothErr => t.is_err() && d.is_err(),
                    Exp::BothOk => t.is_ok() && d.is_ok(),
                };
                if ok {
                    ctx.outcome("counterpart-as-documented");
                } else {
                    ctx.outcome("VIOL");
                    ctx.violation(&format!("counterpart/{what}"), json!({"case": what, "value": format!("{:?}", x), "text_route": format!("{:?}", t), "dom_route": format!("{:?}", d)}));
                }
            }
        }
    }
    match which {
        0 => run(ctx, "f64 NaN", &f64::NAN, Exp::TextNullDomErr),
        1 => run(ctx, "f64 inf", &f64::INFINITY, Exp::TextNullDomErr),
        2 => run(ctx, "f32 -inf", &f32::NEG_INFINITY, Exp::TextNullDomErr),
        3 => run(ctx, "Vec<f64> with NaN", &vec![1.0, f64::NAN], Exp::TextNullDomErr),
        4 => run(ctx, "struct field inf", &(1u8, f32::INFINITY), Exp::TextNullDomErr),
        5 => run(ctx, "u128 above u64", &(u64::MAX as u128 + 1), Exp::TextOkDomErr),
        6 => run(ctx, "i128 below i64", &(i64::MIN as i128 - 1), Exp::TextOkDomErr),
        7 => run(ctx, "i128 max", &i128::MAX, Exp::TextOkDomErr),
        8 => run(ctx, "u128 in u64 range", &(u64::MAX as u128), Exp::BothOk),
        9 => run(ctx, "i128 = u64::MAX", &(u64::MAX as i128), Exp::BothOk),
        10 => run(ctx, "i128 = i64::MIN", &(i64::MIN as i128), Exp::BothOk),
        11 => {
            let m: BTreeMap<Option<u8>, u8> = [(Some(1), 1)].into_iter().collect();
            run(ctx, "map with Option key", &m, Exp::BothOk)
        }
        12 => {
            let m: BTreeMap<(u8, u8), u8> = [((1, 2), 1)].into_iter().collect();
            run(ctx, "map with tuple key", &m, Exp::BothErr)
        }
        13 => {
            let m: BTreeMap<Vec<u8>, u8> = [(vec![1], 1)].into_iter().collect();
            run(ctx, "map with seq key", &m, Exp::BothErr)
        }
        14 => {
            #[derive(Serialize, PartialEq, Eq, PartialOrd, Ord, Debug)]
            struct K {
                a: u8,
            }
            let m: BTreeMap<K, u8> = [(K { a: 1 }, 1)].into_iter().collect();
            run(ctx, "map with struct key", &m, Exp::BothErr)
        }
        15 => {
            let m: std::collections::HashMap<String, f64> = [("k".to_string(), f64::NAN)].into_iter().collect();
            run(ctx, "map value NaN", &m, Exp::TextNullDomErr)
        }
        16 => {
            // float keys are written as their shortest representation by both routes
            #[derive(Serialize, Debug)]
            struct FK(Vec<(f64, u8)>);
            let m: std::collections::BTreeMap<ordered::F, u8> = [(ordered::F(1.5), 1)].into_iter().collect();
            run(ctx, "map with finite float key", &m, Exp::BothOk)
        }
        17 => {
            let m: std::collections::BTreeMap<ordered::F, u8> = [(ordered::F(f64::INFINITY), 1)].into_iter().collect();
            run(ctx, "map with infinite float key", &m, Exp::BothErr)
        }
        18 => run(ctx, "unit in map key", &[((), 1u8)].into_iter().collect::<BTreeMap<(), u8>>(), Exp::BothErr),
        _ => run(ctx, "bool/char/int keys", &([(true, 1u8)].into_iter().collect::<BTreeMap<bool, u8>>(), [('c', 1u8)].into_iter().collect::<BTreeMap<char, u8>>(), [(-1i8, 1u8)].into_iter().collect::<BTreeMap<i8, u8>>()), Exp::BothOk),
    }
}

mod ordered {
    #[derive(Debug, PartialEq, PartialOrd)]
    pub struct F(pub f64);
    impl Eq for F {}
    impl Ord for F {
        fn cmp(&self, o: &Self) -> std::cmp::Ordering {
            self.partial_cmp(o).unwrap_or(std::cmp::Ordering::Equal)
        }
    }
    impl serde::Serialize for F {
        fn serialize<S: serde::Serializer>(&self, s: S) -> Result<S::Ok, S::Error> {
            s.serialize_f64(self.0)
        }
    }
}

// ------------------------------------------------------------------------------------------
// equality laws

fn build(doc: &str, how: usize) -> Value {
    match how {
        0 => sonic_rs::from_str(doc).unwrap(),
        1 => {
            // through serde_json::Value and to_value (owned containers)
            let j: serde_json::Value = serde_json::from_str(doc).unwrap();
            sonic_rs::to_value(&j).unwrap()
        }
        2 => {
            // parsed inside a wrapper and cloned out (arena subtree -> standalone)
            let w: Value = sonic_rs::from_str(&format!("[0,{}]", doc)).unwrap();
            w[1].clone()
        }
        3 => {
            // promoted to owned by a no-op mutation
            use sonic_rs::JsonValueMutTrait;
            let mut v: Value = sonic_rs::from_str(doc).unwrap();
            let _ = v.as_array_mut().map(|a| a.len());
            let _ = v.as_object_mut().map(|a| a.len());
            v
        }
        _ => {
            // raw-number mode: numbers keep their spelling
            let mut de = sonic_rs::Deserializer::from_str(doc).use_rawnumber();
            de.deserialize::<Value>().unwrap()
        }
    }
}

pub fn equality_universe(q: bool) -> Vec<String> {
    let g = DocGen {
        leaves: gen::strs(&["1", "-1", "1.0", "\"1\"", "\"a\"", "true", "null", "18446744073709551615"]),
        keys: gen::strs(&["\"a\"", "\"b\""]),
        style: gen::COMPACT,
        allow_dup_keys: true,
    };
    let mut v = g.docs(if q { 3 } else { 3 });
    // member permutations and deeper documents
    v.extend(gen::strs(&[
        "{\"a\":1,\"b\":[1,2],\"c\":{\"x\":null}}",
        "{\"c\":{\"x\":null},\"b\":[1,2],\"a\":1}",
        "{\"b\":[2,1],\"a\":1,\"c\":{\"x\":null}}",
        "[{\"a\":1,\"b\":2},{\"b\":2,\"a\":1}]",
        "[{\"b\":2,\"a\":1},{\"a\":1,\"b\":2}]",
        "{\"a\":1,\"a\":2}",
        "{\"a\":2,\"a\":1}",
        "{\"a\":1,\"b\":2}",
        "{\"a\":1,\"a\":1}",
        "0",
        "-0.0",
        "0.0",
        // one value, several spellings (what raw-number mode keeps apart textually)
        "1.00",
        "1e0",
        "10e-1",
        "1.5",
        "1.50",
        "15e-1",
        "150E-2",
        "[1.5,{\"a\":1.50}]",
        "[15e-1,{\"a\":1.5}]",
        "100",
        "1e2",
        "1E+2",
        "\"\"",
        "[]",
        "{}",
        "[[]]",
        "[{}]",
    ]));
    v.sort();
    v.dedup();
    v
}

fn model_key(doc: &str) -> (String, bool) {
    let n = refjson::parse_doc(doc.as_bytes(), RMode::Decode).unwrap();
    let mut s = String::new();
    dump_sorted_node(&n, &mut s);
    // -0.0 == 0.0 numerically: normalise the float zero
    (s.replace("f8000000000000000", "f0000000000000000"), n.has_duplicate_keys())
}

pub fn check_equality_pair(ctx: &mut Ctx, a: &str, b: &str) {
    let (ka, da) = model_key(a);
    let (kb, db) = model_key(b);
    for ha in 0..5 {
        for hb in 0..5 {
            let r = guard(|| {
                let x = build(a, ha);
                let y = build(b, hb);
                (x == y, y == x, x == x.clone(), !(x != y) == (x == y))
            });
            ctx.state();
            ctx.calls(4);
            match r {
                Err(p) => ctx.violation("panic/eq", json!({"a": a, "b": b, "panic": p})),
                Ok((xy, yx, refl, consistent)) => {
                    if !refl {
                        ctx.violation("eq-not-reflexive", json!({"a": a, "built": ha}));
                    }
                    if xy != yx {
                        ctx.outcome("VIOL:asymmetric");
                        ctx.violation("eq-not-symmetric", json!({"a": a, "b": b, "a_built": ha, "b_built": hb, "a==b": xy, "b==a": yx}));
                        continue;
                    }
                    if !consistent {
                        ctx.violation("ne-inconsistent", json!({"a": a, "b": b}));
                    }
                    if !da && !db {
                        // duplicate-free: equality is equality of the data models (member order
                        // and construction do not matter)
                        let want = ka == kb;
                        if xy != want {
                            ctx.outcome("VIOL:eq-vs-model");
                            ctx.violation(
                                if want { "equal-values-compare-unequal" } else { "different-values-compare-equal" },
                                json!({"a": a, "b": b, "a_built": ha, "b_built": hb, "observed": xy}),
                            );
                        } else {
                            ctx.outcome(if want { "eq:true" } else { "eq:false" });
                        }
                    } else {
                        ctx.outcome("eq:dup-keys(symmetric)");
                    }
                }
            }
        }
    }
}

pub fn check_primitive_eq(ctx: &mut Ctx, doc: &str) {
    let r = guard(|| -> Result<(), String> {
        for how in 0..5 {
            let v = build(doc, how);
            let n = refjson::parse_doc(doc.as_bytes(), RMode::Decode).unwrap();
            use refjson::{Kind, Num};
            match &n.kind {
                Kind::Num(Num::U(u)) => {
                    if !(v == *u) || !(*u == v) {
                        return Err(format!("{doc} != {u}u64"));
                    }
                    if let Ok(i) = i64::try_from(*u) {
                        if !(v == i) {
                            return Err(format!("{doc} != {i}i64"));
                        }
                    }
                    if v == (*u).wrapping_add(1) {
                        return Err(format!("{doc} == {}", u.wrapping_add(1)));
                    }
                    if v == "1" || v == true {
                        return Err("number equals a string/bool".into());
                    }
                }
                Kind::Num(Num::I(i)) => {
                    if !(v == *i) || v == (*i + 1) {
                        return Err(format!("{doc} vs {i}i64"));
                    }
                }
                Kind::Num(Num::F(f)) => {
                    if !(v == *f) {
                        return Err(format!("{doc} != {f}f64"));
                    }
                }
                Kind::Str { val, .. } => {
                    if !(v == val.as_str()) || !(val.as_str() == v) || !(v == *val) || v == format!("{val}x").as_str() {
                        return Err(format!("{doc} vs str {:?}", val));
                    }
                    if v == 1 {
                        return Err("string equals a number".into());
                    }
                }
                Kind::Bool(b) => {
                    if !(v == *b) || v == !*b {
                        return Err(format!("{doc} vs bool"));
                    }
                }
                Kind::Null => {
                    if !v.is_null() || v == false || v == 0 || v == "" {
                        return Err("null equals a primitive".into());
                    }
                }
                Kind::Arr(items) => {
                    let all_u: Option<Vec<u64>> = items.iter().map(|x| if let Kind::Num(Num::U(u)) = x.kind { Some(u) } else { None }).collect();
                    if let Some(us) = all_u {
                        if !(v == us) {
                            return Err(format!("{doc} != Vec<u64> {:?}", us));
                        }
                        let mut other = us.clone();
                        other.push(0);
                        if v == other {
                            return Err("array equals a longer vec".into());
                        }
                    }
                }
                Kind::Obj(_) => {}
            }
        }
        Ok(())
    });
    ctx.state();
    ctx.calls(8);
    ctx.nontrivial();
    match r {
        Ok(Ok(())) => ctx.outcome("primitive-eq-consistent"),
        Ok(Err(m)) => ctx.violation("primitive-eq", json!({"doc": doc, "mismatch": m})),
        Err(p) => ctx.violation("panic/primitive-eq", json!({"doc": doc, "panic": p})),
    }
}

pub fn families(tier: Tier, _variant: &str) -> Vec<Family> {
    let q = tier == Tier::Quick;
    let mut v = vec![];
    macro_rules! uni {
        ($t:ty) => {{
            let u = if q { <$t as Fam>::universe() } else { <$t as Fam>::universe_deep() };
            v.push(Family::of_vec(&format!("routes/{}", <$t as Fam>::NAME), u, |x, ctx| check_value::<$t>(ctx, x)));
        }};
    }
    crate::for_each_fam!(uni);
    // nested combinations: every universe value wrapped in Option / Vec / map / enum
    macro_rules! wrapped {
        ($t:ty) => {{
            // thorough: every 1 + n/600-th value of the deep universe (the wrapping is what is tested)
            let uni = || -> Vec<$t> {
                if q {
                    <$t as Fam>::universe()
                } else {
                    let u = <$t as Fam>::universe_deep();
                    let step = 1 + u.len() / 600;
                    u.into_iter().step_by(step).collect()
                }
            };
            let items: Vec<(Option<$t>, Vec<$t>, BTreeMap<String, $t>)> = uni()
                .into_iter()
                .zip(uni().into_iter())
                .zip(uni().into_iter())
                .map(|((a, b), c)| (Some(a), vec![b], [("k".to_string(), c)].into_iter().collect()))
                .collect();
            v.push(Family::of_vec(&format!("routes/wrapped/{}", <$t as Fam>::NAME), items, |x, ctx| {
                check_wrapped(ctx, x);
            }));
        }};
    }
    crate::for_each_fam!(wrapped);
    v.push(Family::new("counterpart-table", 20, |idx, ctx| check_counterparts(ctx, idx)));
    {
        let u = equality_universe(q);
        let n = u.len() as u64;
        let u2 = u.clone();
        v.push(Family::new("equality/all-ordered-pairs", n * n, move |idx, ctx| {
            if idx % n == 0 {
                ctx.nontrivial();
            }
            check_equality_pair(ctx, &u[(idx / n) as usize], &u[(idx % n) as usize]);
        }));
        v.push(Family::of_vec("equality/primitives", u2, |d, ctx| check_primitive_eq(ctx, d)));
    }
    v
}

/// wrapped values: only the text/DOM agreement (their own Fam impl does not exist)
fn check_wrapped<T: Fam>(ctx: &mut Ctx, x: &(Option<T>, Vec<T>, BTreeMap<String, T>)) {
    ctx.state();
    ctx.calls(4);
    ctx.nontrivial();
    let has_f32 = T::NAME.contains("f32");
    let r = guard(|| -> Result<&'static str, String> {
        let text = sonic_rs::to_string(x);
        let dom = sonic_rs::to_value(x);
        match (text, dom) {
            (Ok(s), Ok(v)) => {
                let parsed: Value = sonic_rs::from_str(&s).map_err(|e| format!("{:?} does not parse: {}", s, first_line(&e)))?;
                if !has_f32 && (parsed != v || sorted(&parsed) != sorted(&v)) {
                    return Err(format!("to_value {} vs parse(to_string) {}", sorted(&v), sorted(&parsed)));
                }
                let a: (Option<T>, Vec<T>, BTreeMap<String, T>) = sonic_rs::from_value(&v).map_err(|e| format!("from_value failed: {}", first_line(&e)))?;
                let b: (Option<T>, Vec<T>, BTreeMap<String, T>) = sonic_rs::from_str(&s).map_err(|e| format!("from_str failed: {}", first_line(&e)))?;
                // Option<()> / Option<Option<..>> collapse None and Some(None): compare after one more round
                if &a != x || &b != x {
                    let again = sonic_rs::to_string(&a).unwrap_or_default();
                    if again != s {
                        return Err(format!("from_value gives {:?}, from_str gives {:?}", a, b));
                    }
                    return Ok("both-routes-agree(modulo None/unit collapse)");
                }
                Ok("both-routes-agree")
            }
            (Err(_), Err(_)) => Ok("both-routes-fail"),
            (Ok(s), Err(_)) if T::NAME.contains("128") && has_out_of_range_integer(&s) => Ok("documented:128-bit-out-of-range(text ok, DOM error)"),
            (Ok(s), Err(e)) => Err(format!("text route gives {:?} but to_value fails: {}", s, first_line(&e))),
            (Err(e), Ok(v)) => Err(format!("to_value gives {} but to_string fails: {}", sorted(&v), first_line(&e))),
        }
    });
    match r {
        Ok(Ok(o)) => ctx.outcome(o),
        Ok(Err(m)) => {
            ctx.outcome("VIOL");
            ctx.violation(&format!("routes-disagree/wrapped/{}", T::NAME), json!({"type": T::NAME, "value": format!("{:?}", x), "mismatch": m}))
        }
        Err(p) => ctx.violation(&format!("panic/wrapped/{}", T::NAME), json!({"type": T::NAME, "value": format!("{:?}", x), "panic": p})),
    }
}
