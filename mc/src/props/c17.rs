//! C17 - results do not depend on the SIMD backend compiled in.
//!  (a) every vector primitive against its scalar definition: the backend selected by this
//!      build (public sonic_simd types), the portable backend (v128/v256/v512 pulled in by
//!      #[path]), both prefix_xor / get_nonspace_bits / simd_str2int implementations;
//!  (b) the input spaces of C02 C03 C05 C07 C09 C10 C11 C12 with a per-chunk transcript digest;
//!      /verif/check runs this in the native and in the baseline x86-64 build and compares the
//!      digests chunk by chunk (engine E6).

use serde_json::json;
use sonic_simd::{BitMask, Mask, Simd};

use crate::engine::{Ctx, Family, Tier};

#[allow(dead_code, unused_imports, clippy::all)]
mod portable {
    pub use sonic_simd::{BitMask, Mask, Simd};
    #[path = "/repo/sonic-simd/src/v128.rs"]
    mod v128;
    pub use v128::*;
    #[path = "/repo/sonic-simd/src/v256.rs"]
    mod v256;
    pub use v256::*;
    #[path = "/repo/sonic-simd/src/v512.rs"]
    mod v512;
    pub use v512::*;
}

#[allow(dead_code, clippy::all)]
#[path = "/repo/src/util/arch/x86_64.rs"]
mod arch_x86;
#[allow(dead_code, clippy::all)]
#[path = "/repo/src/util/arch/fallback.rs"]
mod arch_fallback;
#[allow(dead_code, clippy::all)]
#[path = "/repo/sonic-number/src/arch/x86_64.rs"]
mod num_x86;
#[allow(dead_code, clippy::all)]
#[path = "/repo/sonic-number/src/arch/fallback.rs"]
mod num_fallback;

pub trait ToU64 {
    fn to_u64(&self) -> u64;
}
impl ToU64 for u16 {
    fn to_u64(&self) -> u64 {
        *self as u64
    }
}
impl ToU64 for u32 {
    fn to_u64(&self) -> u64 {
        *self as u64
    }
}
impl ToU64 for u64 {
    fn to_u64(&self) -> u64 {
        *self
    }
}

fn viol(ctx: &mut Ctx, class: &str, detail: serde_json::Value) {
    ctx.outcome("VIOL");
    ctx.violation(class, detail);
}

/// lane-wise check of one vector type against the scalar definition, for one (lane, a) and all b
fn check_vec<S, E>(ctx: &mut Ctx, name: &str, lane: usize, a: u8, cmp_le: fn(u8, u8) -> bool, cmp_gt: fn(u8, u8) -> bool, to_elem: fn(u8) -> E)
where
    S: Simd<Element = E>,
    <S::Mask as Mask>::BitMask: ToU64,
    S::Mask: std::ops::BitOr<S::Mask, Output = S::Mask> + std::ops::BitAnd<S::Mask, Output = S::Mask>,
{
    let n = S::LANES;
    if lane >= n {
        return;
    }
    for (f, g) in [(0u8, 0xffu8), (0x7f, 0x80), (0x80, 0x7f), (b'"', b'"')] {
        for b in 0..=255u8 {
            let mut x = [f; 64];
            let mut y = [g; 64];
            x[lane] = a;
            y[lane] = b;
            let (vx, vy) = unsafe { (S::loadu(x.as_ptr()), S::loadu(y.as_ptr())) };
            let spec = |p: fn(u8, u8) -> bool| -> u64 {
                let mut m = 0u64;
                for i in 0..n {
                    if p(x[i], y[i]) {
                        m |= 1u64 << i;
                    }
                }
                m
            };
            let eq = vx.eq(&vy).bitmask().to_u64();
            let le = vx.le(&vy).bitmask().to_u64();
            let gt = vx.gt(&vy).bitmask().to_u64();
            ctx.calls(3);
            let (weq, wle, wgt) = (spec(|p, q| p == q), spec(cmp_le), spec(cmp_gt));
            if eq != weq || le != wle || gt != wgt {
                viol(ctx, &format!("lane-function/{name}"), json!({"type": name, "lane": lane, "a": a, "b": b, "filler": [f, g],
                    "eq": format!("{:x} vs {:x}", eq, weq), "le": format!("{:x} vs {:x}", le, wle), "gt": format!("{:x} vs {:x}", gt, wgt)}));
                return;
            }
            // mask algebra and splat
            if b % 17 == 0 {
                let m_or = (vx.eq(&vy) | vx.gt(&vy)).bitmask().to_u64();
                let m_and = (vx.le(&vy) & vx.gt(&vy)).bitmask().to_u64();
                let sp = S::splat(to_elem(b));
                let sp_eq = sp.eq(&vy).bitmask().to_u64();
                let all = if n == 64 { u64::MAX } else { (1u64 << n) - 1 };
                let t = <S::Mask as Mask>::splat(true).bitmask().to_u64();
                let fz = <S::Mask as Mask>::splat(false).bitmask().to_u64();
                ctx.calls(5);
                if m_or != (weq | wgt) || m_and != 0 || sp_eq != spec2(&y, b, n) || t != all || fz != 0 {
                    viol(ctx, &format!("mask-algebra/{name}"), json!({"type": name, "lane": lane, "a": a, "b": b}));
                    return;
                }
                // store round trip
                let mut out = [0u8; 64];
                unsafe { vx.storeu(out.as_mut_ptr()) };
                if out[..n] != x[..n] {
                    viol(ctx, &format!("load-store/{name}"), json!({"type": name, "lane": lane, "a": a}));
                    return;
                }
            }
        }
    }
    ctx.outcome("lane-functions-agree");
}

fn spec2(y: &[u8; 64], b: u8, n: usize) -> u64 {
    let mut m = 0u64;
    for i in 0..n {
        if y[i] == b {
            m |= 1u64 << i;
        }
    }
    m
}

fn le_u(a: u8, b: u8) -> bool {
    a <= b
}
fn gt_u(a: u8, b: u8) -> bool {
    a > b
}
fn le_i(a: u8, b: u8) -> bool {
    (a as i8) <= (b as i8)
}
fn gt_i(a: u8, b: u8) -> bool {
    (a as i8) > (b as i8)
}

fn check_bitmask(ctx: &mut Ctx, x: u64) {
    macro_rules! one {
        ($t:ty) => {{
            let v = x as $t;
            let len = <$t as BitMask>::LEN;
            let fo = v.first_offset();
            let want_fo = if v == 0 { len } else { v.trailing_zeros() as usize };
            let az = v.all_zero();
            ctx.calls(2);
            if fo != want_fo || az != (v == 0) {
                viol(ctx, concat!("bitmask/", stringify!($t)), json!({"value": format!("{:x}", v), "first_offset": fo}));
            }
            for n in [0usize, 1, 7, len / 2, len - 1, len] {
                let c = v.clear_high_bits(n);
                let want = if n == 0 { v } else if n >= len { 0 } else { v & (<$t>::MAX >> n) };
                ctx.call();
                if c != want {
                    viol(ctx, concat!("bitmask-clear_high_bits/", stringify!($t)), json!({"value": format!("{:x}", v), "n": n, "got": format!("{:x}", c), "want": format!("{:x}", want)}));
                }
            }
            for other in [0 as $t, 1, v, v.rotate_left(3), <$t>::MAX, (v >> 1), 0x5555_5555_5555_5555u64 as $t] {
                // before: some bit of self is lower than the lowest bit of rhs; specified for masks of
                // different characters, which are disjoint
                let other = other & !v;
                let got = v.before(&other);
                let want = if other == 0 { v != 0 } else { (v & (other & other.wrapping_neg()).wrapping_sub(1)) != 0 };
                ctx.call();
                if got != want {
                    viol(ctx, concat!("bitmask-before/", stringify!($t)), json!({"self": format!("{:x}", v), "rhs": format!("{:x}", other), "got": got}));
                }
            }
        }};
    }
    one!(u16);
    one!(u32);
    one!(u64);
    ctx.outcome("bitmask-ops-agree");
}

fn scalar_prefix_xor(x: u64) -> u64 {
    let mut out = 0u64;
    let mut acc = 0u64;
    for i in 0..64 {
        acc ^= (x >> i) & 1;
        out |= acc << i;
    }
    out
}

fn check_prefix_xor(ctx: &mut Ctx, x: u64) {
    let want = scalar_prefix_xor(x);
    let a = unsafe { arch_x86::prefix_xor(x) };
    let b = unsafe { arch_fallback::prefix_xor(x) };
    ctx.calls(2);
    if a != want || b != want {
        viol(ctx, "prefix_xor", json!({"input": format!("{:016x}", x), "x86_64": format!("{:016x}", a), "fallback": format!("{:016x}", b), "scalar": format!("{:016x}", want)}));
    } else {
        ctx.outcome("prefix_xor-agree");
    }
    ctx.tr(|t| t.u64(a));
}

fn check_nonspace(ctx: &mut Ctx, pos: usize, byte: u8) {
    for bg in [b' ', b'x', b'\n', 0u8, 0x80] {
        let mut d = [bg; 64];
        d[pos] = byte;
        let mut want = 0u64;
        for (i, c) in d.iter().enumerate() {
            if !matches!(*c, b' ' | b'\t' | b'\n' | b'\r') {
                want |= 1 << i;
            }
        }
        let a = unsafe { arch_x86::get_nonspace_bits(&d) };
        let b = unsafe { arch_fallback::get_nonspace_bits(&d) };
        ctx.calls(2);
        if a != want || b != want {
            viol(ctx, "get_nonspace_bits", json!({"pos": pos, "byte": byte, "background": bg, "x86_64": format!("{:016x}", a), "fallback": format!("{:016x}", b), "scalar": format!("{:016x}", want)}));
            return;
        }
    }
    ctx.outcome("get_nonspace_bits-agree");
}

fn check_str2int(ctx: &mut Ctx, need: usize, ndigits: usize, term: u8, pat: usize) {
    let mut c = [term; 32];
    for i in 0..ndigits {
        c[i] = match pat {
            0 => b'9',
            1 => b'0' + ((i + 1) % 10) as u8,
            2 => b'0',
            _ => b'0' + ((i * 7 + 3) % 10) as u8,
        };
    }
    // scalar definition: up to `need` leading digits
    let mut want = 0u64;
    let mut k = 0;
    while k < need && c[k].is_ascii_digit() {
        want = want * 10 + (c[k] - b'0') as u64;
        k += 1;
    }
    let a = unsafe { num_x86::simd_str2int(&c[..], need) };
    let b = unsafe { num_fallback::simd_str2int(&c[..], need) };
    ctx.calls(2);
    if a != (want, k) || b != (want, k) {
        viol(ctx, "simd_str2int", json!({"need": need, "digits": ndigits, "terminator": term, "pattern": pat, "x86_64": format!("{:?}", a), "fallback": format!("{:?}", b), "scalar": format!("{:?}", (want, k))}));
    } else {
        ctx.outcome("simd_str2int-agree");
    }
    ctx.tr(|t| {
        t.u64(a.0);
        t.u64(a.1 as u64)
    });
}

fn prefixed(prefix: &str, fams: Vec<Family>) -> Vec<Family> {
    fams.into_iter()
        .map(|mut f| {
            f.name = format!("{}/{}", prefix, f.name);
            f
        })
        .collect()
}

pub fn families(tier: Tier, variant: &str) -> Vec<Family> {
    let mut v = vec![];
    // (a) primitives ------------------------------------------------------------------------
    v.push(Family::new("primitives/lane-functions (lane x byte, all operand bytes)", 64 * 256, |idx, ctx| {
        let lane = (idx / 256) as usize;
        let a = (idx % 256) as u8;
        ctx.state();
        ctx.nontrivial();
        if let Err(p) = crate::engine::guard(std::panic::AssertUnwindSafe(|| {
        check_vec::<sonic_simd::u8x16, u8>(ctx, "u8x16(build)", lane, a, le_u, gt_u, |b| b);
        check_vec::<sonic_simd::u8x32, u8>(ctx, "u8x32(build)", lane, a, le_u, gt_u, |b| b);
        check_vec::<sonic_simd::u8x64, u8>(ctx, "u8x64(build)", lane, a, le_u, gt_u, |b| b);
        check_vec::<sonic_simd::i8x16, i8>(ctx, "i8x16(build)", lane, a, le_i, gt_i, |b| b as i8);
        check_vec::<sonic_simd::i8x32, i8>(ctx, "i8x32(build)", lane, a, le_i, gt_i, |b| b as i8);
        check_vec::<sonic_simd::i8x64, i8>(ctx, "i8x64(build)", lane, a, le_i, gt_i, |b| b as i8);
        check_vec::<portable::Simd128u, u8>(ctx, "u8x16(portable)", lane, a, le_u, gt_u, |b| b);
        check_vec::<portable::Simd256u, u8>(ctx, "u8x32(portable)", lane, a, le_u, gt_u, |b| b);
        check_vec::<portable::Simd512u, u8>(ctx, "u8x64(portable)", lane, a, le_u, gt_u, |b| b);
        check_vec::<portable::Simd128i, i8>(ctx, "i8x16(portable)", lane, a, le_i, gt_i, |b| b as i8);
        check_vec::<portable::Simd256i, i8>(ctx, "i8x32(portable)", lane, a, le_i, gt_i, |b| b as i8);
        check_vec::<portable::Simd512i, i8>(ctx, "i8x64(portable)", lane, a, le_i, gt_i, |b| b as i8);
        })) {
            viol(ctx, "panic/lane-functions", json!({"lane": lane, "a": a, "panic": p}));
        }
        ctx.sample(|| json!({"lane": lane, "a": a}));
    }));
    v.push(Family::new("primitives/bitmask-ops (all 2^16 masks at 4 shifts + patterns)", 65536 * 4 + 4096, |idx, ctx| {
        ctx.state();
        let x = if idx < 65536 * 4 {
            (idx % 65536) << (16 * (idx / 65536))
        } else {
            let k = idx - 65536 * 4;
            // two-bit patterns
            (1u64 << (k % 64)) | (1u64 << (k / 64))
        };
        if let Err(p) = crate::engine::guard(std::panic::AssertUnwindSafe(|| {
            check_bitmask(ctx, x);
            check_prefix_xor(ctx, x);
            check_prefix_xor(ctx, !x);
            check_prefix_xor(ctx, x.wrapping_mul(0x9e3779b97f4a7c15));
        })) {
            viol(ctx, "panic/bitmask-ops", json!({"mask": format!("{:x}", x), "panic": p}));
        }
    }));
    v.push(Family::new("primitives/get_nonspace_bits (position x byte)", 64 * 256, |idx, ctx| {
        ctx.state();
        if let Err(p) = crate::engine::guard(std::panic::AssertUnwindSafe(|| check_nonspace(ctx, (idx / 256) as usize, (idx % 256) as u8))) {
            viol(ctx, "panic/get_nonspace_bits", json!({"panic": p}));
        }
    }));
    {
        let terms: Vec<u8> = vec![b',', b' ', b'e', b'.', 0x2f, 0x3a, 0xff, 0x00, b'E', b'-'];
        let nt = terms.len() as u64;
        v.push(Family::new("primitives/simd_str2int (need 1..16 x digits x terminator x pattern)", 16 * 17 * nt * 4, move |idx, ctx| {
            ctx.state();
            let pat = (idx % 4) as usize;
            let t = terms[((idx / 4) % nt) as usize];
            // at least one digit: the caller has checked the first one
            let nd = (((idx / (4 * nt)) % 17) as usize).max(1);
            // need == 0 is outside the contract (the caller only asks for at least one digit)
            let need = (idx / (4 * nt * 17)) as usize + 1;
            if let Err(p) = crate::engine::guard(std::panic::AssertUnwindSafe(|| check_str2int(ctx, need, nd, t, pat))) {
                viol(ctx, "panic/simd_str2int", json!({"need": need, "digits": nd, "panic": p}));
            }
        }));
    }
    // (b) the input spaces of the other properties, transcript mode ------------------------------
    use crate::props::{c02, c03, c04, c05, c07, c09, lazy};
    if tier == Tier::Quick {
        // the quick tier differences a selection of the spaces (the block-oriented scanners and the
        // number paths, where the two builds run different code); thorough takes all of them
        let keep = |f: &Family, names: &[&str]| names.iter().any(|n| f.name.starts_with(n));
        v.extend(prefixed("C02", c02::families_opt(tier, variant, c02::Mode::AcceptReject, false).into_iter().filter(|f| keep(f, &["t16-full", "b11-root", "n10", "literals", "whitespace", "number-positions", "digit-run+n10-tail"])).collect()));
        v.extend(prefixed("C03", c03::families(tier, variant, c03::Mode::Tree).into_iter().filter(|f| keep(f, &["alignment", "all-u-escapes"])).collect()));
        v.extend(prefixed("C05", c05::families(tier, variant).into_iter().filter(|f| keep(f, &["strings/a10", "strings/positional-one"])).collect()));
        v.extend(prefixed("C07", c07::families(tier, variant)));
        v.extend(prefixed("C09", c09::families(tier, variant)));
        v.extend(prefixed("C10", lazy::families_c10(tier).into_iter().filter(|f| keep(f, &["block-edge"])).collect()));
        v.extend(prefixed("C12", lazy::families_c12(tier)));
        v.extend(prefixed("C14", lazy::families_c14(tier).into_iter().filter(|f| keep(f, &["embedded/plain-run", "embedded/b11"])).collect()));
        return v;
    }
    // all spaces; the three most expensive ones (the deviation-bounded token family of C02 and the
    // thorough document generators of C10 / C11, hundreds of millions of lookups each) take part
    // with their quick bounds: every run is done twice, once per build
    v.extend(prefixed("C02", c02::families_opt(tier, variant, c02::Mode::AcceptReject, false).into_iter().filter(|f| !f.name.starts_with("nesting")).collect()));
    v.extend(prefixed("C03", c03::families(tier, variant, c03::Mode::Tree)));
    v.extend(prefixed("C04", c04::families(tier, variant).into_iter().filter(|f| f.name.starts_with("t20") || f.name.starts_with("map-keys")).collect()));
    v.extend(prefixed("C05", c05::families(tier, variant).into_iter().filter(|f| f.name.starts_with("strings/") && !f.name.contains("fenced")).collect()));
    v.extend(prefixed("C07", c07::families(tier, variant)));
    v.extend(prefixed("C09", c09::families(tier, variant)));
    v.extend(prefixed("C10", lazy::families_c10(Tier::Quick)));
    v.extend(prefixed("C11", lazy::families_c11(Tier::Quick)));
    v.extend(prefixed("C12", lazy::families_c12(Tier::Quick)));
    v.extend(prefixed("C14", lazy::families_c14(tier).into_iter().filter(|f| f.name.starts_with("embedded/") || f.name.starts_with("byte-neighbourhood") || f.name.starts_with("string-head")).collect()));
    v
}
