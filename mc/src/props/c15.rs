//! C15 - the mutable DOM matches a plain array/map model under every operation history.
//! (Engine E2: all operation sequences up to a depth, replayed on fresh objects.)

use std::collections::BTreeMap;

use serde_json::json;
use sonic_rs::{value::object::Entry, JsonContainerTrait, JsonValueMutTrait, JsonValueTrait, PointerNode, Value};

use crate::{
    engine::{guard, Ctx, Family, Tier},
    gen, walk,
};

#[derive(Clone, Debug, PartialEq)]
pub enum R {
    Null,
    Bool(bool),
    Num(String),
    Str(String),
    Arr(Vec<R>),
    Obj(BTreeMap<String, R>),
}

pub fn r_dump(r: &R, out: &mut String) {
    match r {
        R::Null => out.push_str("null"),
        R::Bool(b) => out.push_str(if *b { "true" } else { "false" }),
        R::Num(s) => out.push_str(s),
        R::Str(s) => out.push_str(&format!("{:?}", s)),
        R::Arr(a) => {
            out.push('[');
            for (i, x) in a.iter().enumerate() {
                if i > 0 {
                    out.push(',');
                }
                r_dump(x, out);
            }
            out.push(']');
        }
        R::Obj(o) => {
            out.push('{');
            for (i, (k, v)) in o.iter().enumerate() {
                if i > 0 {
                    out.push(',');
                }
                out.push_str(&format!("{:?}:", k));
                r_dump(v, out);
            }
            out.push('}');
        }
    }
}
pub fn r_dumps(r: &R) -> String {
    let mut s = String::new();
    r_dump(r, &mut s);
    s
}
pub fn v_dumps(v: &Value) -> String {
    let mut s = String::new();
    walk::dump_value_sorted(v, &mut s);
    s
}

pub fn r_of_json(j: &serde_json::Value) -> R {
    match j {
        serde_json::Value::Null => R::Null,
        serde_json::Value::Bool(b) => R::Bool(*b),
        serde_json::Value::Number(n) => {
            if let Some(u) = n.as_u64() {
                R::Num(format!("u{u}"))
            } else if let Some(i) = n.as_i64() {
                R::Num(format!("i{i}"))
            } else {
                R::Num(format!("f{:016x}", n.as_f64().unwrap().to_bits()))
            }
        }
        serde_json::Value::String(s) => R::Str(s.clone()),
        serde_json::Value::Array(a) => R::Arr(a.iter().map(r_of_json).collect()),
        serde_json::Value::Object(o) => R::Obj(o.iter().map(|(k, v)| (k.clone(), r_of_json(v))).collect()),
    }
}

#[derive(Clone, Copy, Debug, PartialEq)]
pub enum Tgt {
    Root(usize),
    KeyA(usize),
    PathA1(usize),
}

fn tgt_live(t: Tgt) -> usize {
    match t {
        Tgt::Root(i) | Tgt::KeyA(i) | Tgt::PathA1(i) => i,
    }
}

fn impl_target(live: &mut [Value], t: Tgt) -> Option<&mut Value> {
    let i = tgt_live(t);
    let v = live.get_mut(i)?;
    match t {
        Tgt::Root(_) => Some(v),
        Tgt::KeyA(_) => v.get_mut("a"),
        Tgt::PathA1(_) => v.pointer_mut([PointerNode::Key("a".into()), PointerNode::Index(1)].iter()),
    }
}
fn model_target(model: &mut [R], t: Tgt) -> Option<&mut R> {
    let i = tgt_live(t);
    let v = model.get_mut(i)?;
    match t {
        Tgt::Root(_) => Some(v),
        Tgt::KeyA(_) => match v {
            R::Obj(o) => o.get_mut("a"),
            _ => None,
        },
        Tgt::PathA1(_) => match v {
            R::Obj(o) => match o.get_mut("a") {
                Some(R::Arr(a)) => a.get_mut(1),
                _ => None,
            },
            _ => None,
        },
    }
}

#[derive(Clone, Copy, Debug, PartialEq)]
pub enum Leaf {
    One,
    Str,
    ArrTrue,
    ObjB,
    Null,
    CloneOfLive1,
}

fn leaf_value(l: Leaf, live: &[Value]) -> Option<Value> {
    Some(match l {
        Leaf::One => Value::from(1),
        Leaf::Str => Value::from("s"),
        Leaf::ArrTrue => sonic_rs::json!([true]),
        Leaf::ObjB => sonic_rs::from_str("{\"b\":2}").unwrap(),
        Leaf::Null => Value::new(),
        Leaf::CloneOfLive1 => live.get(1)?.clone(),
    })
}
fn leaf_model(l: Leaf, model: &[R]) -> Option<R> {
    Some(match l {
        Leaf::One => R::Num("u1".into()),
        Leaf::Str => R::Str("s".into()),
        Leaf::ArrTrue => R::Arr(vec![R::Bool(true)]),
        Leaf::ObjB => R::Obj([("b".to_string(), R::Num("u2".into()))].into_iter().collect()),
        Leaf::Null => R::Null,
        Leaf::CloneOfLive1 => model.get(1)?.clone(),
    })
}

#[derive(Clone, Debug, PartialEq)]
pub enum Op {
    // arrays
    Push(Tgt, Leaf),
    Pop(Tgt),
    Insert(Tgt, usize, Leaf),
    Remove(Tgt, usize),
    SwapRemove(Tgt, usize),
    Truncate(Tgt, usize),
    ClearArr(Tgt),
    RetainNumbers(Tgt),
    SplitOff(Tgt, usize),
    AppendFromLive1(Tgt),
    Drain01(Tgt),
    /// double-ended traversal (back, front, back, front, ... to exhaustion, then two more polls)
    /// of 0: iter(), 1: iter_mut(), 2: into_iter() of a clone, 3: drain(..)
    ArrIterBothEnds(Tgt, usize),
    /// mutable lookups applied to a target of any kind (string, number, literal, container):
    /// get_mut(key), get_mut(index), pointer_mut([key, key]), pointer_mut([index, key])
    LookupMutAnyKind(Tgt),
    Extend(Tgt),
    Resize(Tgt, usize, Leaf),
    ArrIndexAssign(Tgt, usize, Leaf),
    // objects
    ObjInsert(Tgt, &'static str, Leaf),
    ObjRemove(Tgt, &'static str),
    ObjRemoveEntry(Tgt, &'static str),
    ObjGetMutAssign(Tgt, &'static str, Leaf),
    EntryOrInsert(Tgt, &'static str, Leaf),
    EntryAndModifyOrInsert(Tgt, &'static str),
    EntryRemove(Tgt, &'static str),
    EntryKey(Tgt, &'static str),
    ObjRetainNotA(Tgt),
    ObjAppendFromLive1(Tgt),
    /// append an object built for the target: it holds every key of the target with a different
    /// value plus `extra` new keys (extra = 0: same size, 2: strictly larger), or - `Overlap1` -
    /// only the target's first key
    ObjAppendOverlapping(Tgt, usize),
    ObjAppendOverlap1(Tgt),
    /// `Extend<(&K, &V)>` with every key of the target bound to a different value, `extra` new
    /// keys, and the first new key given twice (the later pair wins, as for `insert`)
    ObjExtendOverlapping(Tgt, usize),
    ObjClear(Tgt),
    ObjIterMutAssign(Tgt, Leaf),
    // value level
    IndexMutKey(Tgt, &'static str, Leaf),
    IndexMutIdx(Tgt, usize, Leaf),
    PointerMutEmptyAssign(usize, Leaf),
    /// the target is replaced by a value built with repeated keys: 0 = `json!` literal, 1 =
    /// `to_value` of a map that emits a key twice, 2 = `object!` literal, 3/4 = `Object`/`Value` collected from pairs (last occurrence wins,
    /// as for serde_json's builders)
    AssignBuiltWithRepeatedKey(Tgt, usize),
    /// the doc-hidden primitive behind the builders, on a key that is present / absent
    ValueInsertPrimitive(Tgt, &'static str, Leaf),
    GetMutIdxAssign(Tgt, usize, Leaf),
    Take(Tgt),
    CloneLive(Tgt),
    DropLive(usize),
    AssignCloneInto(usize, Tgt),
    AsMutKinds(Tgt),
}

const MAX_LIVE: usize = 3;

pub fn ops() -> Vec<Op> {
    use Leaf::*;
    use Op::*;
    let mut v = vec![];
    for t in [Tgt::Root(0), Tgt::KeyA(0), Tgt::Root(1)] {
        v.push(Push(t, One));
        v.push(Push(t, CloneOfLive1));
        v.push(Pop(t));
        v.push(Insert(t, 0, Str));
        v.push(Insert(t, 9, One));
        v.push(Remove(t, 0));
        v.push(Remove(t, 9));
        v.push(SwapRemove(t, 0));
        v.push(Truncate(t, 1));
        v.push(ClearArr(t));
        v.push(RetainNumbers(t));
        v.push(SplitOff(t, 1));
        v.push(SplitOff(t, 0));
        v.push(SplitOff(t, 9));
        v.push(Truncate(t, 0));
        v.push(Resize(t, 0, One));
        v.push(Insert(t, 1, CloneOfLive1));
        v.push(Drain01(t));
        for how in 0..4 {
            v.push(ArrIterBothEnds(t, how));
        }
        v.push(LookupMutAnyKind(t));
        v.push(Extend(t));
        v.push(Resize(t, 3, ArrTrue));
        v.push(ArrIndexAssign(t, 0, ObjB));
        v.push(ObjInsert(t, "a", One));
        v.push(ObjInsert(t, "z", ArrTrue));
        v.push(ObjRemove(t, "a"));
        v.push(ObjRemoveEntry(t, "c"));
        v.push(ObjGetMutAssign(t, "a", Str));
        v.push(EntryOrInsert(t, "a", Null));
        v.push(EntryOrInsert(t, "n", One));
        v.push(EntryAndModifyOrInsert(t, "a"));
        v.push(EntryRemove(t, "c"));
        v.push(EntryKey(t, "a"));
        v.push(ObjRetainNotA(t));
        v.push(ObjClear(t));
        v.push(ObjIterMutAssign(t, One));
        v.push(IndexMutKey(t, "k", Str));
        v.push(IndexMutIdx(t, 1, One));
        v.push(GetMutIdxAssign(t, 0, Null));
        v.push(Take(t));
        v.push(CloneLive(t));
        v.push(AsMutKinds(t));
    }
    v.push(AppendFromLive1(Tgt::Root(0)));
    v.push(AppendFromLive1(Tgt::KeyA(0)));
    v.push(ObjAppendFromLive1(Tgt::Root(0)));
    for t in [Tgt::Root(0), Tgt::KeyA(0)] {
        v.push(ObjAppendOverlapping(t, 0));
        v.push(ObjAppendOverlapping(t, 2));
        v.push(ObjAppendOverlap1(t));
        v.push(ObjExtendOverlapping(t, 0));
        v.push(ObjExtendOverlapping(t, 2));
    }
    v.push(Take(Tgt::PathA1(0)));
    v.push(CloneLive(Tgt::PathA1(0)));
    v.push(Push(Tgt::PathA1(0), One));
    v.push(ObjInsert(Tgt::PathA1(0), "q", One));
    v.push(PointerMutEmptyAssign(0, One));
    for t in [Tgt::Root(0), Tgt::KeyA(0)] {
        for how in 0..5 {
            v.push(AssignBuiltWithRepeatedKey(t, how));
        }
        v.push(ValueInsertPrimitive(t, "a", Str));
        v.push(ValueInsertPrimitive(t, "fresh", One));
    }
    v.push(DropLive(0));
    v.push(DropLive(1));
    v.push(AssignCloneInto(0, Tgt::Root(1)));
    v.push(AssignCloneInto(1, Tgt::KeyA(0)));
    v.push(AssignCloneInto(0, Tgt::KeyA(0)));
    v
}

pub const START_DOC: &str = "{\"a\":[1,{\"b\":2}],\"c\":\"s\"}";

pub fn starts() -> Vec<(&'static str, Box<dyn Fn() -> (Vec<Value>, Vec<R>)>)> {
    let j: serde_json::Value = serde_json::from_str(START_DOC).unwrap();
    let m = r_of_json(&j);
    let mk = |f: fn() -> Vec<Value>, ms: Vec<R>| -> Box<dyn Fn() -> (Vec<Value>, Vec<R>)> { Box::new(move || (f(), ms.clone())) };
    let arr_m = match &m {
        R::Obj(o) => o["a"].clone(),
        _ => unreachable!(),
    };
    vec![
        ("parsed root", mk(|| vec![sonic_rs::from_str(START_DOC).unwrap()], vec![m.clone()])),
        (
            "parsed root + clone of its subtree [\"a\"]",
            mk(
                || {
                    let v: Value = sonic_rs::from_str(START_DOC).unwrap();
                    let c = v["a"].clone();
                    vec![v, c]
                },
                vec![m.clone(), arr_m.clone()],
            ),
        ),
        (
            "clone of a parsed subtree, document dropped",
            mk(
                || {
                    let v: Value = sonic_rs::from_str(&format!("[0,{}]", START_DOC)).unwrap();
                    let c = v[1].clone();
                    drop(v);
                    vec![c]
                },
                vec![m.clone()],
            ),
        ),
        ("json! built", mk(|| vec![sonic_rs::json!({"a": [1, {"b": 2}], "c": "s"})], vec![m.clone()])),
        (
            "to_value built + parsed second document",
            mk(
                || {
                    let j: serde_json::Value = serde_json::from_str(START_DOC).unwrap();
                    vec![sonic_rs::to_value(&j).unwrap(), sonic_rs::from_str("[1,{\"b\":2}]").unwrap()]
                },
                vec![m.clone(), arr_m.clone()],
            ),
        ),
        ("empty array + empty object", mk(|| vec![sonic_rs::from_str("[]").unwrap(), sonic_rs::json!({})], vec![R::Arr(vec![]), R::Obj(BTreeMap::new())])),
        ("scalar + parsed array", mk(|| vec![Value::from("s"), sonic_rs::from_str("[1,\"x\",[2]]").unwrap()], vec![R::Str("s".into()), R::Arr(vec![R::Num("u1".into()), R::Str("x".into()), R::Arr(vec![R::Num("u2".into())])])])),
    ]
}

/// apply one op; Err(description) on disagreement
pub fn apply(op: &Op, live: &mut Vec<Value>, model: &mut Vec<R>) -> Result<(), String> {
    // helper: run an array operation on both sides
    macro_rules! on_array {
        ($t:expr, $name:expr, |$a:ident| $impl_body:expr, |$m:ident| $model_body:expr) => {{
            let t = *$t;
            if tgt_live(t) >= live.len() {
                return Ok(());
            }
            // model first: Some(result) / None(rejected) ; outer None = not an array
            let model_res: Option<Option<String>> = match model_target(model, t) {
                Some(R::Arr($m)) => Some($model_body),
                _ => None,
            };
            let impl_res: Result<Option<Option<String>>, String> = guard(|| match impl_target(live, t) {
                Some(v) => match v.as_array_mut() {
                    Some($a) => Some($impl_body),
                    None => None,
                },
                None => None,
            });
            match (model_res, impl_res) {
                (None, Ok(None)) => {}
                (Some(Some(w)), Ok(Some(Some(g)))) => {
                    if w != g {
                        return Err(format!("{}: returned {} but the model returns {}", $name, g, w));
                    }
                }
                // the model rejects (out of range): the implementation may panic or do nothing
                (Some(None), Err(_)) | (Some(None), Ok(Some(None))) => {}
                (w, g) => return Err(format!("{}: implementation {:?} vs model {:?}", $name, g, w)),
            }
        }};
    }
    macro_rules! on_object {
        ($t:expr, $name:expr, |$a:ident| $impl_body:expr, |$m:ident| $model_body:expr) => {{
            let t = *$t;
            if tgt_live(t) >= live.len() {
                return Ok(());
            }
            let model_res: Option<Option<String>> = match model_target(model, t) {
                Some(R::Obj($m)) => Some($model_body),
                _ => None,
            };
            let impl_res: Result<Option<Option<String>>, String> = guard(|| match impl_target(live, t) {
                Some(v) => match v.as_object_mut() {
                    Some($a) => Some($impl_body),
                    None => None,
                },
                None => None,
            });
            match (model_res, impl_res) {
                (None, Ok(None)) => {}
                (Some(Some(w)), Ok(Some(Some(g)))) => {
                    if w != g {
                        return Err(format!("{}: returned {} but the model returns {}", $name, g, w));
                    }
                }
                (Some(None), Err(_)) | (Some(None), Ok(Some(None))) => {}
                (w, g) => return Err(format!("{}: implementation {:?} vs model {:?}", $name, g, w)),
            }
        }};
    }
    let ok = || Some("ok".to_string());
    match op {
        Op::Push(t, l) => {
            let (lv, lm) = match (leaf_value(*l, live), leaf_model(*l, model)) {
                (Some(a), Some(b)) => (a, b),
                _ => return Ok(()),
            };
            let mut lv = Some(lv);
            on_array!(t, "push", |a| {
                a.push(lv.take().unwrap());
                ok()
            }, |m| {
                m.push(lm.clone());
                ok()
            })
        }
        Op::Pop(t) => on_array!(t, "pop", |a| Some(a.pop().map(|v| v_dumps(&v)).unwrap_or("none".into())), |m| Some(m.pop().map(|r| r_dumps(&r)).unwrap_or("none".into()))),
        Op::Insert(t, i, l) => {
            let (lv, lm) = match (leaf_value(*l, live), leaf_model(*l, model)) {
                (Some(a), Some(b)) => (a, b),
                _ => return Ok(()),
            };
            let mut lv = Some(lv);
            on_array!(t, "insert", |a| {
                a.insert(*i, lv.take().unwrap());
                ok()
            }, |m| {
                if *i <= m.len() {
                    m.insert(*i, lm.clone());
                    ok()
                } else {
                    None
                }
            })
        }
        Op::Remove(t, i) => on_array!(t, "remove", |a| {
            let before = a.len();
            a.remove(*i);
            if a.len() == before {
                None
            } else {
                ok()
            }
        }, |m| {
            if *i < m.len() {
                m.remove(*i);
                ok()
            } else {
                None
            }
        }),
        Op::SwapRemove(t, i) => on_array!(t, "swap_remove", |a| Some(v_dumps(&a.swap_remove(*i))), |m| if *i < m.len() { Some(r_dumps(&m.swap_remove(*i))) } else { None }),
        Op::Truncate(t, n) => on_array!(t, "truncate", |a| {
            a.truncate(*n);
            ok()
        }, |m| {
            m.truncate(*n);
            ok()
        }),
        Op::ClearArr(t) => on_array!(t, "clear", |a| {
            a.clear();
            ok()
        }, |m| {
            m.clear();
            ok()
        }),
        Op::RetainNumbers(t) => on_array!(t, "retain", |a| {
            a.retain(|v| v.is_number());
            Some(a.len().to_string())
        }, |m| {
            m.retain(|r| matches!(r, R::Num(_)));
            Some(m.len().to_string())
        }),
        Op::SplitOff(t, at) => {
            if live.len() >= MAX_LIVE {
                return Ok(());
            }
            let mut new_live: Option<Value> = None;
            let mut new_model: Option<R> = None;
            on_array!(t, "split_off", |a| {
                let tail = a.split_off(*at).into_value();
                let d = v_dumps(&tail);
                new_live = Some(tail);
                Some(d)
            }, |m| {
                if *at <= m.len() {
                    let tail = R::Arr(m.split_off(*at));
                    let d = r_dumps(&tail);
                    new_model = Some(tail);
                    Some(d)
                } else {
                    None
                }
            });
            if let (Some(v), Some(r)) = (new_live, new_model) {
                live.push(v);
                model.push(r);
            }
        }
        Op::AppendFromLive1(t) => {
            if live.len() < 2 || tgt_live(*t) == 1 {
                return Ok(());
            }
            // other = a clone of live[1] when it is an array
            let other_m = match &model[1] {
                R::Arr(a) => a.clone(),
                _ => return Ok(()),
            };
            let mut other_v = live[1].clone();
            on_array!(t, "append", |a| {
                let o = other_v.as_array_mut().expect("live1 is an array");
                a.append(o);
                Some(format!("other-left-with-{}", o.len()))
            }, |m| {
                m.extend(other_m.iter().cloned());
                Some("other-left-with-0".to_string())
            })
        }
        Op::ArrIterBothEnds(t, how) => on_array!(t, "double-ended iteration", |a| {
            fn walk<I: DoubleEndedIterator<Item = String>>(mut it: I) -> String {
                let mut out = vec![];
                let mut from_back = true;
                let mut polls = 0;
                loop {
                    let x = if from_back { it.next_back() } else { it.next() };
                    from_back = !from_back;
                    polls += 1;
                    match x {
                        Some(s) => out.push(s),
                        None => break,
                    }
                    if polls > 64 {
                        out.push("...".into());
                        break;
                    }
                }
                out.push(format!("then:{:?},{:?}", it.next(), it.next_back()));
                out.join(";")
            }
            Some(match how {
                0 => walk(a.iter().map(|v| v_dumps(v))),
                1 => walk(a.iter_mut().map(|v| v_dumps(v))),
                2 => walk(a.clone().into_iter().map(|v| v_dumps(&v))),
                _ => walk(a.drain(..).map(|v| v_dumps(&v))),
            })
        }, |m| {
            fn walk<I: DoubleEndedIterator<Item = String>>(mut it: I) -> String {
                let mut out = vec![];
                let mut from_back = true;
                loop {
                    let x = if from_back { it.next_back() } else { it.next() };
                    from_back = !from_back;
                    match x {
                        Some(s) => out.push(s),
                        None => break,
                    }
                }
                out.push(format!("then:{:?},{:?}", it.next(), it.next_back()));
                out.join(";")
            }
            let r = walk(m.iter().map(|r| r_dumps(r)));
            if *how == 3 {
                m.clear();
            }
            Some(r)
        }),
        Op::LookupMutAnyKind(t) => {
            if tgt_live(*t) >= live.len() {
                return Ok(());
            }
            let want: Option<[bool; 4]> = model_target(model, *t).map(|m| {
                let k = matches!(m, R::Obj(o) if o.contains_key("a"));
                let i = matches!(m, R::Arr(a) if !a.is_empty());
                let kk = match m {
                    R::Obj(o) => matches!(o.get("a"), Some(R::Obj(p)) if p.contains_key("b")),
                    _ => false,
                };
                let ik = match m {
                    R::Arr(a) => matches!(a.first(), Some(R::Obj(p)) if p.contains_key("b")),
                    _ => false,
                };
                [k, i, kk, ik]
            });
            let got = guard(|| {
                impl_target(live, *t).map(|v| {
                    let k = v.get_mut("a").is_some();
                    let i = v.get_mut(0usize).is_some();
                    let kk = v.pointer_mut([PointerNode::Key("a".into()), PointerNode::Key("b".into())].iter()).is_some();
                    let ik = v.pointer_mut([PointerNode::Index(0), PointerNode::Key("b".into())].iter()).is_some();
                    [k, i, kk, ik]
                })
            })?;
            if got != want {
                return Err(format!("mutable lookups [get_mut(\"a\"), get_mut(0), pointer_mut(a/b), pointer_mut(0/b)] found {:?}, the model {:?}", got, want));
            }
        }
        Op::Drain01(t) => on_array!(t, "drain(0..1)", |a| {
            if a.is_empty() {
                None
            } else {
                let d: Vec<String> = a.drain(0..1).map(|v| v_dumps(&v)).collect();
                Some(d.join(";"))
            }
        }, |m| {
            if m.is_empty() {
                None
            } else {
                let d: Vec<String> = m.drain(0..1).map(|r| r_dumps(&r)).collect();
                Some(d.join(";"))
            }
        }),
        Op::Extend(t) => on_array!(t, "extend", |a| {
            let items = vec![Value::from(1), Value::from("s")];
            a.extend(items.iter());
            ok()
        }, |m| {
            m.extend(vec![R::Num("u1".into()), R::Str("s".into())]);
            ok()
        }),
        Op::Resize(t, n, l) => {
            let (lv, lm) = match (leaf_value(*l, live), leaf_model(*l, model)) {
                (Some(a), Some(b)) => (a, b),
                _ => return Ok(()),
            };
            on_array!(t, "resize", |a| {
                a.resize(*n, lv.clone());
                ok()
            }, |m| {
                m.resize(*n, lm.clone());
                ok()
            })
        }
        Op::ArrIndexAssign(t, i, l) => {
            let (lv, lm) = match (leaf_value(*l, live), leaf_model(*l, model)) {
                (Some(a), Some(b)) => (a, b),
                _ => return Ok(()),
            };
            let mut lv = Some(lv);
            on_array!(t, "array[i] = x", |a| {
                a[*i] = lv.take().unwrap();
                ok()
            }, |m| {
                if *i < m.len() {
                    m[*i] = lm.clone();
                    ok()
                } else {
                    None
                }
            })
        }
        Op::ObjInsert(t, k, l) => {
            let (lv, lm) = match (leaf_value(*l, live), leaf_model(*l, model)) {
                (Some(a), Some(b)) => (a, b),
                _ => return Ok(()),
            };
            let mut lv = Some(lv);
            on_object!(t, "insert", |o| Some(o.insert(k, lv.take().unwrap()).map(|v| v_dumps(&v)).unwrap_or("none".into())), |m| Some(m.insert(k.to_string(), lm.clone()).map(|r| r_dumps(&r)).unwrap_or("none".into())))
        }
        Op::ObjRemove(t, k) => on_object!(t, "remove", |o| Some(o.remove(k).map(|v| v_dumps(&v)).unwrap_or("none".into())), |m| Some(m.remove(*k).map(|r| r_dumps(&r)).unwrap_or("none".into()))),
        Op::ObjRemoveEntry(t, k) => on_object!(t, "remove_entry", |o| Some(o.remove_entry(k).map(|(kk, v)| format!("{kk}={}", v_dumps(&v))).unwrap_or("none".into())), |m| Some(m.remove(*k).map(|r| format!("{k}={}", r_dumps(&r))).unwrap_or("none".into()))),
        Op::ObjGetMutAssign(t, k, l) => {
            let (lv, lm) = match (leaf_value(*l, live), leaf_model(*l, model)) {
                (Some(a), Some(b)) => (a, b),
                _ => return Ok(()),
            };
            let mut lv = Some(lv);
            on_object!(t, "get_mut", |o| Some(match o.get_mut(k) {
                Some(x) => {
                    *x = lv.take().unwrap();
                    "some".to_string()
                }
                None => "none".to_string(),
            }), |m| Some(match m.get_mut(*k) {
                Some(x) => {
                    *x = lm.clone();
                    "some".to_string()
                }
                None => "none".to_string(),
            }))
        }
        Op::EntryOrInsert(t, k, l) => {
            let (lv, lm) = match (leaf_value(*l, live), leaf_model(*l, model)) {
                (Some(a), Some(b)) => (a, b),
                _ => return Ok(()),
            };
            let mut lv = Some(lv);
            on_object!(t, "entry.or_insert", |o| Some(v_dumps(o.entry(k).or_insert(lv.take().unwrap()))), |m| Some(r_dumps(m.entry(k.to_string()).or_insert(lm.clone()))))
        }
        Op::EntryAndModifyOrInsert(t, k) => on_object!(t, "entry.and_modify.or_insert", |o| {
            let v = o.entry(k).and_modify(|v| *v = Value::from("modified")).or_insert(Value::from("fresh"));
            Some(v_dumps(v))
        }, |m| {
            let v = m.entry(k.to_string()).and_modify(|v| *v = R::Str("modified".into())).or_insert(R::Str("fresh".into()));
            Some(r_dumps(v))
        }),
        Op::EntryRemove(t, k) => on_object!(t, "entry(occupied).remove", |o| Some(match o.entry(k) {
            Entry::Occupied(e) => v_dumps(&e.remove()),
            Entry::Vacant(_) => "vacant".to_string(),
        }), |m| Some(match m.remove(*k) {
            Some(r) => r_dumps(&r),
            None => "vacant".to_string(),
        })),
        Op::EntryKey(t, k) => on_object!(t, "entry.key", |o| Some(o.entry(k).key().to_string()), |_m| Some(k.to_string())),
        Op::ObjRetainNotA(t) => on_object!(t, "retain", |o| {
            o.retain(|k, _| k != "a");
            Some(o.len().to_string())
        }, |m| {
            m.retain(|k, _| k != "a");
            Some(m.len().to_string())
        }),
        Op::ObjAppendFromLive1(t) => {
            if live.len() < 2 || tgt_live(*t) == 1 {
                return Ok(());
            }
            let other_m = match &model[1] {
                R::Obj(o) => o.clone(),
                _ => return Ok(()),
            };
            let mut other_v = live[1].clone();
            on_object!(t, "append", |o| {
                let oo = other_v.as_object_mut().expect("live1 is an object");
                o.append(oo);
                Some(format!("other-left-with-{}", oo.len()))
            }, |m| {
                for (k, v) in other_m.iter() {
                    m.insert(k.clone(), v.clone());
                }
                Some("other-left-with-0".to_string())
            })
        }
        Op::ObjAppendOverlapping(t, extra) => on_object!(t, "append(overlapping)", |o| {
            let keys: Vec<String> = o.iter().map(|(k, _)| k.to_string()).collect();
            let mut other = sonic_rs::Object::new();
            for k in &keys {
                other.insert(k, Value::from(format!("other-{k}").as_str()));
            }
            for i in 0..*extra {
                other.insert(&format!("zz{i}"), Value::from(format!("new-{i}").as_str()));
            }
            o.append(&mut other);
            Some(format!("other-left-with-{}", other.len()))
        }, |m| {
            let keys: Vec<String> = m.keys().cloned().collect();
            for k in keys {
                m.insert(k.clone(), R::Str(format!("other-{k}")));
            }
            for i in 0..*extra {
                m.insert(format!("zz{i}"), R::Str(format!("new-{i}")));
            }
            Some("other-left-with-0".to_string())
        }),
        Op::ObjExtendOverlapping(t, extra) => on_object!(t, "extend(overlapping)", |o| {
            let keys: Vec<String> = o.iter().map(|(k, _)| k.to_string()).collect();
            let mut pairs: Vec<(String, Value)> = Vec::new();
            for k in &keys {
                pairs.push((k.clone(), Value::from(format!("ext-{k}").as_str())));
            }
            for i in 0..*extra {
                pairs.push((format!("zz{i}"), Value::from(format!("new-{i}").as_str())));
            }
            if *extra > 0 {
                pairs.push(("zz0".to_string(), Value::from("new-0-again")));
            }
            o.extend(pairs.iter().map(|(k, v)| (k, v)));
            ok()
        }, |m| {
            let keys: Vec<String> = m.keys().cloned().collect();
            for k in keys {
                m.insert(k.clone(), R::Str(format!("ext-{k}")));
            }
            for i in 0..*extra {
                m.insert(format!("zz{i}"), R::Str(format!("new-{i}")));
            }
            if *extra > 0 {
                m.insert("zz0".to_string(), R::Str("new-0-again".to_string()));
            }
            ok()
        }),
        Op::ObjAppendOverlap1(t) => on_object!(t, "append(one common key)", |o| {
            let first: Option<String> = {
                let mut ks: Vec<String> = o.iter().map(|(k, _)| k.to_string()).collect();
                ks.sort();
                ks.into_iter().next()
            };
            let mut other = sonic_rs::Object::new();
            if let Some(k) = &first {
                other.insert(k, Value::from("other"));
            }
            o.append(&mut other);
            Some(format!("other-left-with-{}", other.len()))
        }, |m| {
            if let Some(k) = m.keys().next().cloned() {
                m.insert(k, R::Str("other".to_string()));
            }
            Some("other-left-with-0".to_string())
        }),
        Op::ObjClear(t) => on_object!(t, "clear", |o| {
            o.clear();
            ok()
        }, |m| {
            m.clear();
            ok()
        }),
        Op::ObjIterMutAssign(t, l) => {
            let (lv, lm) = match (leaf_value(*l, live), leaf_model(*l, model)) {
                (Some(a), Some(b)) => (a, b),
                _ => return Ok(()),
            };
            on_object!(t, "iter_mut", |o| {
                let mut n = 0;
                for (_, v) in o.iter_mut() {
                    *v = lv.clone();
                    n += 1;
                }
                Some(n.to_string())
            }, |m| {
                let mut n = 0;
                for (_, v) in m.iter_mut() {
                    *v = lm.clone();
                    n += 1;
                }
                Some(n.to_string())
            })
        }
        Op::IndexMutKey(t, k, l) => {
            if tgt_live(*t) >= live.len() {
                return Ok(());
            }
            let (lv, lm) = match (leaf_value(*l, live), leaf_model(*l, model)) {
                (Some(a), Some(b)) => (a, b),
                _ => return Ok(()),
            };
            // model: null becomes an object; objects insert; everything else is rejected
            let m_ok = match model_target(model, *t) {
                Some(m @ R::Null) => {
                    *m = R::Obj([(k.to_string(), lm)].into_iter().collect());
                    Some(true)
                }
                Some(R::Obj(o)) => {
                    o.insert(k.to_string(), lm);
                    Some(true)
                }
                Some(_) => Some(false),
                None => None,
            };
            let g = guard(|| match impl_target(live, *t) {
                Some(v) => {
                    v[*k] = lv;
                    Some(())
                }
                None => None,
            });
            match (m_ok, g) {
                (None, Ok(None)) => {}
                (Some(true), Ok(Some(()))) => {}
                (Some(false), Err(_)) => {}
                (w, g) => return Err(format!("value[key] = x: implementation {:?} vs model {:?}", g, w)),
            }
        }
        Op::IndexMutIdx(t, i, l) => {
            if tgt_live(*t) >= live.len() {
                return Ok(());
            }
            let (lv, lm) = match (leaf_value(*l, live), leaf_model(*l, model)) {
                (Some(a), Some(b)) => (a, b),
                _ => return Ok(()),
            };
            let m_ok = match model_target(model, *t) {
                Some(R::Arr(a)) if *i < a.len() => {
                    a[*i] = lm;
                    Some(true)
                }
                Some(_) => Some(false),
                None => None,
            };
            let g = guard(|| match impl_target(live, *t) {
                Some(v) => {
                    v[*i] = lv;
                    Some(())
                }
                None => None,
            });
            match (m_ok, g) {
                (None, Ok(None)) => {}
                (Some(true), Ok(Some(()))) => {}
                (Some(false), Err(_)) => {}
                (w, g) => return Err(format!("value[index] = x: implementation {:?} vs model {:?}", g, w)),
            }
        }
        Op::AssignBuiltWithRepeatedKey(t, how) => {
            if tgt_live(*t) >= live.len() {
                return Ok(());
            }
            struct Dup;
            impl serde::Serialize for Dup {
                fn serialize<S: serde::Serializer>(&self, s: S) -> Result<S::Ok, S::Error> {
                    use serde::ser::SerializeMap;
                    let mut m = s.serialize_map(Some(3))?;
                    m.serialize_entry("k", &1)?;
                    m.serialize_entry("z", &[true])?;
                    m.serialize_entry("k", "second")?;
                    m.end()
                }
            }
            let built = guard(|| match how {
                0 => sonic_rs::json!({"k": 1, "z": [true], "k": "second"}),
                1 => sonic_rs::to_value(&Dup).expect("to_value"),
                2 => sonic_rs::Value::from(sonic_rs::object! {"k": 1, "z": [true], "k": "second"}),
                _ => {
                    let vals = [Value::from(1), Value::from(&[true][..]), Value::from("second")];
                    let pairs = [("k", &vals[0]), ("z", &vals[1]), ("k", &vals[2])];
                    if *how == 3 {
                        sonic_rs::Value::from(pairs.into_iter().collect::<sonic_rs::Object>())
                    } else {
                        pairs.into_iter().collect::<sonic_rs::Value>()
                    }
                }
            })?;
            let want: BTreeMap<String, R> = [("k".to_string(), R::Str("second".into())), ("z".to_string(), R::Arr(vec![R::Bool(true)]))].into_iter().collect();
            match (impl_target(live, *t), model_target(model, *t)) {
                (Some(v), Some(m)) => {
                    *v = built;
                    *m = R::Obj(want);
                }
                (None, None) => {}
                _ => return Err("target presence differs from the model".into()),
            }
        }
        Op::ValueInsertPrimitive(t, k, l) => {
            let (lv, lm) = match (leaf_value(*l, live), leaf_model(*l, model)) {
                (Some(a), Some(b)) => (a, b),
                _ => return Ok(()),
            };
            if tgt_live(*t) >= live.len() {
                return Ok(());
            }
            let is_obj = matches!(model_target(model, *t), Some(R::Obj(_)));
            if is_obj {
                let r = guard(|| {
                    let v = impl_target(live, *t).expect("target");
                    let slot = v.insert(k, lv);
                    v_dumps(slot)
                })?;
                if let Some(R::Obj(m)) = model_target(model, *t) {
                    m.insert(k.to_string(), lm.clone());
                }
                let w = r_dumps(&lm);
                if r != w {
                    return Err(format!("Value::insert returned a slot holding {r}, expected {w}"));
                }
            }
        }
        Op::PointerMutEmptyAssign(i, l) => {
            if *i >= live.len() {
                return Ok(());
            }
            let (lv, lm) = match (leaf_value(*l, live), leaf_model(*l, model)) {
                (Some(a), Some(b)) => (a, b),
                _ => return Ok(()),
            };
            let e: [usize; 0] = [];
            match guard(|| live[*i].pointer_mut(e.iter()).map(|x| *x = lv)) {
                Ok(Some(())) => model[*i] = lm,
                Ok(None) => return Err("pointer_mut(empty path) is None (pointer(empty path) is the value itself)".into()),
                Err(p) => return Err(format!("pointer_mut(empty path) panicked: {p}")),
            }
        }
        Op::GetMutIdxAssign(t, i, l) => {
            if tgt_live(*t) >= live.len() {
                return Ok(());
            }
            let (lv, lm) = match (leaf_value(*l, live), leaf_model(*l, model)) {
                (Some(a), Some(b)) => (a, b),
                _ => return Ok(()),
            };
            let m_some = match model_target(model, *t) {
                Some(R::Arr(a)) => match a.get_mut(*i) {
                    Some(x) => {
                        *x = lm;
                        Some(true)
                    }
                    None => Some(false),
                },
                Some(_) => Some(false),
                None => None,
            };
            let g = guard(|| impl_target(live, *t).map(|v| v.get_mut(*i).map(|x| *x = lv).is_some()));
            match (m_some, g) {
                (None, Ok(None)) => {}
                (Some(w), Ok(Some(g))) if w == g => {}
                (w, g) => return Err(format!("get_mut(index): implementation {:?} vs model {:?}", g, w)),
            }
        }
        Op::Take(t) => {
            if tgt_live(*t) >= live.len() {
                return Ok(());
            }
            let mt = model_target(model, *t).map(|m| std::mem::replace(m, R::Null));
            let vt = guard(|| impl_target(live, *t).map(|v| v.take()));
            match (mt, vt) {
                (None, Ok(None)) => {}
                (Some(m), Ok(Some(v))) => {
                    if v_dumps(&v) != r_dumps(&m) {
                        return Err(format!("take returned {} but the model returns {}", v_dumps(&v), r_dumps(&m)));
                    }
                    if live.len() < MAX_LIVE {
                        live.push(v);
                        model.push(m);
                    }
                }
                (w, g) => return Err(format!("take: implementation {:?} vs model {:?}", g.map(|o| o.is_some()), w.is_some())),
            }
        }
        Op::CloneLive(t) => {
            if tgt_live(*t) >= live.len() || live.len() >= MAX_LIVE {
                return Ok(());
            }
            let mc = model_target(model, *t).map(|m| m.clone());
            let vc = impl_target(live, *t).map(|v| v.clone());
            match (mc, vc) {
                (None, None) => {}
                (Some(m), Some(v)) => {
                    live.push(v);
                    model.push(m);
                }
                _ => return Err("clone target presence differs".into()),
            }
        }
        Op::DropLive(i) => {
            if *i < live.len() && live.len() > 1 {
                live.remove(*i);
                model.remove(*i);
            }
        }
        Op::AssignCloneInto(src, t) => {
            if *src >= live.len() || tgt_live(*t) >= live.len() {
                return Ok(());
            }
            let c = live[*src].clone();
            let mc = model[*src].clone();
            let m = model_target(model, *t).map(|m| *m = mc);
            let g = impl_target(live, *t).map(|v| *v = c);
            if m.is_some() != g.is_some() {
                return Err("assignment target presence differs".into());
            }
        }
        Op::AsMutKinds(t) => {
            if tgt_live(*t) >= live.len() {
                return Ok(());
            }
            let (wa, wo) = match model_target(model, *t) {
                Some(R::Arr(_)) => (true, false),
                Some(R::Obj(_)) => (false, true),
                Some(_) => (false, false),
                None => return if impl_target(live, *t).is_none() { Ok(()) } else { Err("target presence differs".into()) },
            };
            let v = impl_target(live, *t).ok_or("target presence differs")?;
            let ga = v.as_array_mut().is_some();
            let go = v.as_object_mut().is_some();
            if (ga, go) != (wa, wo) {
                return Err(format!("as_array_mut/as_object_mut is_some = {:?}, model {:?}", (ga, go), (wa, wo)));
            }
        }
    }
    Ok(())
}

/// every live value equals its model: contents, lengths, reads through several APIs
pub fn compare_all(live: &[Value], model: &[R]) -> Result<(), String> {
    if live.len() != model.len() {
        return Err("live count differs".into());
    }
    for (k, (v, m)) in live.iter().zip(model.iter()).enumerate() {
        let g = v_dumps(v);
        let w = r_dumps(m);
        if g != w {
            return Err(format!("live value {k} is {g} but the model says {w}"));
        }
        // a second reading through serialization must agree (exercises every node representation)
        let s = sonic_rs::to_string(v).map_err(|e| format!("to_string failed: {e}"))?;
        let back: Value = sonic_rs::from_str(&s).map_err(|e| format!("to_string output {:?} does not parse: {e}", s))?;
        if v_dumps(&back) != w {
            return Err(format!("live value {k} serializes to {s} which is not the model {w}"));
        }
        match m {
            R::Arr(a) => {
                if v.as_array().map(|x| x.len()) != Some(a.len()) {
                    return Err(format!("live value {k}: len() differs from the model"));
                }
            }
            R::Obj(o) => {
                if v.as_object().map(|x| x.len()) != Some(o.len()) {
                    return Err(format!("live value {k}: len() {:?} differs from the model {}", v.as_object().map(|x| x.len()), o.len()));
                }
                for key in o.keys() {
                    if v.get(key.as_str()).is_none() {
                        return Err(format!("live value {k}: get({key:?}) is None"));
                    }
                }
            }
            _ => {}
        }
    }
    Ok(())
}

pub fn run_history(ctx: &mut Ctx, start: usize, seq: &[u32], all_ops: &[Op], starts: &[(&'static str, Box<dyn Fn() -> (Vec<Value>, Vec<R>)>)]) {
    let hist: Vec<&Op> = seq.iter().map(|i| &all_ops[*i as usize]).collect();
    let r = guard(|| -> Result<String, (usize, String)> {
        let (mut live, mut model) = (starts[start].1)();
        compare_all(&live, &model).map_err(|e| (usize::MAX, e))?;
        for (k, op) in hist.iter().enumerate() {
            apply(op, &mut live, &mut model).map_err(|e| (k, e))?;
            compare_all(&live, &model).map_err(|e| (k, e))?;
        }
        // drop in reverse and forward order variants are C16's business; here: drop all but the last
        // and read the survivor once more
        while live.len() > 1 {
            live.remove(0);
            model.remove(0);
            compare_all(&live, &model).map_err(|e| (hist.len(), format!("after dropping an earlier value: {e}")))?;
        }
        Ok(r_dumps(&model[0]))
    });
    ctx.state();
    ctx.calls(seq.len() as u64);
    let describe = || json!({"start": starts[start].0, "history": hist.iter().map(|o| format!("{:?}", o)).collect::<Vec<_>>()});
    match r {
        Ok(Ok(end)) => {
            ctx.outcome("history-agrees");
            let mut h = crate::digest::Transcript::new();
            h.str(&end);
            ctx.note(&format!("end-state-class-{}", &h.digest_hex()[..2]), 1);
            if seq.len() >= 2 {
                ctx.nontrivial();
            }
        }
        Ok(Err((k, m))) => {
            ctx.outcome("VIOL");
            let opname = if k < hist.len() { format!("{:?}", hist[k]).split('(').next().unwrap_or("").to_string() } else { "end".into() };
            ctx.violation(&format!("history-diverges/{opname}"), json!({"case": describe(), "failing_step": k, "mismatch": m}))
        }
        Err(p) => ctx.violation("panic/history", json!({"case": describe(), "panic": p})),
    }
    ctx.sample(describe);
}

pub fn families(tier: Tier, _variant: &str) -> Vec<Family> {
    let q = tier == Tier::Quick;
    let all = ops();
    let k = all.len() as u64;
    let depth = if q { 2 } else { 3 };
    let per = gen::seq_count(k, depth);
    let st = starts();
    let ns = st.len() as u64;
    let mut v = vec![];
    v.push(Family::new(&format!("dom-histories<=depth{} ({} operations, {} start states)", depth, k, ns), per * ns, move |idx, ctx| {
        let s = (idx / per) as usize;
        let mut seq = vec![];
        gen::nth_seq(k, depth, idx % per, &mut seq);
        run_history(ctx, s, &seq, &all, &st);
    }));
    // one level deeper over a medium alphabet: the state-changing operations at the two targets of
    // live value 0, and the sharing operations
    {
        let medium: Vec<Op> = ops()
            .into_iter()
            .filter(|o| {
                let d = format!("{:?}", o);
                let kind = d.split('(').next().unwrap_or("");
                let on0 = d.contains("Root(0)") || d.contains("KeyA(0)");
                (on0 && matches!(kind, "Push" | "Pop" | "SwapRemove" | "SplitOff" | "RetainNumbers" | "ObjInsert" | "ObjRemove" | "EntryOrInsert" | "EntryRemove" | "IndexMutKey" | "Take" | "CloneLive" | "ObjIterMutAssign" | "Drain01"))
                    || matches!(kind, "DropLive" | "AssignCloneInto" | "AppendFromLive1" | "ObjAppendFromLive1" | "ObjAppendOverlapping" | "ObjAppendOverlap1" | "ObjExtendOverlapping")
                    || d.contains("PathA1")
            })
            .collect();
        let k1 = medium.len() as u64;
        let depth1 = if q { 3 } else { 4 };
        let per1 = gen::seq_count(k1, depth1);
        let st1 = starts();
        v.push(Family::new(&format!("dom-histories/medium-alphabet({} ops)<=depth{}", k1, depth1), per1 * ns, move |idx, ctx| {
            let s = (idx / per1) as usize;
            let mut seq = vec![];
            gen::nth_seq(k1, depth1, idx % per1, &mut seq);
            run_history(ctx, s, &seq, &medium, &st1);
        }));
    }
    // deeper over a core alphabet
    {
        use Leaf::*;
        use Op::*;
        let core: Vec<Op> = vec![
            Push(Tgt::KeyA(0), CloneOfLive1),
            Pop(Tgt::KeyA(0)),
            ObjInsert(Tgt::Root(0), "z", ArrTrue),
            ObjRemove(Tgt::Root(0), "a"),
            Take(Tgt::KeyA(0)),
            Take(Tgt::PathA1(0)),
            CloneLive(Tgt::Root(0)),
            CloneLive(Tgt::KeyA(0)),
            DropLive(0),
            AssignCloneInto(1, Tgt::KeyA(0)),
            AssignCloneInto(0, Tgt::Root(1)),
            IndexMutKey(Tgt::PathA1(0), "k", Str),
            Push(Tgt::Root(1), One),
            ObjIterMutAssign(Tgt::Root(0), One),
        ];
        let k2 = core.len() as u64;
        let depth2 = if q { 4 } else { 5 };
        let per2 = gen::seq_count(k2, depth2);
        let st2 = starts();
        v.push(Family::new(&format!("dom-histories/core-alphabet<=depth{}", depth2), per2 * ns, move |idx, ctx| {
            let s = (idx / per2) as usize;
            let mut seq = vec![];
            gen::nth_seq(k2, depth2, idx % per2, &mut seq);
            run_history(ctx, s, &seq, &core, &st2);
        }));
    }
    v
}
