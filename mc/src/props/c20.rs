//! C20 - errors locate themselves inside the input and end streams cleanly.

use serde::Deserialize;
use serde_json::json;
use sonic_rs::{Deserializer, LazyValue, OwnedLazyValue, PointerTree, Value};

use crate::{
    engine::{guard, show, Ctx, Family, Tier},
    gen,
    props::{c02, lazy},
    refjson::Seg,
    subj,
};

fn check_err(ctx: &mut Ctx, entry: &str, input: &[u8], e: &sonic_rs::Error, path_lookup: bool) {
    ctx.nontrivial();
    match guard(|| (format!("{}", e).len(), format!("{:?}", e).len())) {
        Ok(_) => {}
        Err(p) => ctx.violation(&format!("display-panics/{entry}"), json!({"entry": entry, "input": show(input), "panic": p})),
    }
    if let Some((class, detail)) = subj::check_error_position(input, e) {
        ctx.outcome(&format!("VIOL:{class}"));
        ctx.violation(
            &format!("{class}/{entry}"),
            json!({"entry": entry, "input": show(input), "error": e.to_string(), "position": detail}),
        );
    } else {
        ctx.outcome(&format!("err-located:{:?}", e.classify()));
    }
    if e.is_not_found() && !path_lookup {
        ctx.violation(&format!("not-found-from-parse/{entry}"), json!({"entry": entry, "input": show(input), "error": e.to_string()}));
    }
}

#[derive(Deserialize, Debug)]
#[allow(dead_code)]
struct S {
    a: Vec<u8>,
    b: Option<String>,
}
#[derive(Deserialize, Debug)]
#[allow(dead_code)]
enum E {
    A,
    B(u8),
    C { x: bool },
}

/// typed targets whose errors are often made by visitors (position must be fixed up)
fn typed_errors(ctx: &mut Ctx, input: &[u8]) {
    macro_rules! t {
        ($ty:ty, $name:expr) => {{
            let r = guard(|| sonic_rs::from_slice::<$ty>(input).map(|_| ()));
            ctx.state();
            ctx.call();
            match r {
                Err(p) => ctx.violation(concat!("panic/", $name), json!({"entry": $name, "input": show(input), "panic": p})),
                Ok(Ok(())) => ctx.outcome("ok"),
                Ok(Err(e)) => check_err(ctx, $name, input, &e, false),
            }
        }};
    }
    t!(S, "from_slice<struct>");
    t!(E, "from_slice<enum>");
    t!(Vec<E>, "from_slice<Vec<enum>>");
    t!(std::collections::HashMap<u8, bool>, "from_slice<HashMap<u8,bool>>");
    t!((u8, String), "from_slice<(u8,String)>");
    t!(Option<u16>, "from_slice<Option<u16>>");
    t!(char, "from_slice<char>");
    t!(sonic_rs::RawNumber, "from_slice<RawNumber>");
    t!(u128, "from_slice<u128>");
    t!(Value, "from_slice<Value>");
    t!(LazyValue, "from_slice<LazyValue>");
    t!(OwnedLazyValue, "from_slice<OwnedLazyValue>");
    // lossy mode: invalid UTF-8 is repaired in a copy, positions still refer to the input
    for kind in 0..4 {
        let name = ["lossy Deserializer<Value>", "lossy Deserializer<String>", "lossy Deserializer<Vec<String>>", "lossy stream<Value>"][kind];
        let r = guard(|| -> Vec<sonic_rs::Error> {
            let mut de = sonic_rs::Deserializer::from_slice(input).utf8_lossy();
            match kind {
                0 => de.deserialize::<Value>().err().into_iter().collect(),
                1 => de.deserialize::<String>().err().into_iter().collect(),
                2 => de.deserialize::<Vec<String>>().err().into_iter().collect(),
                _ => de.into_stream::<Value>().take(8).filter_map(|x| x.err()).collect(),
            }
        });
        ctx.state();
        ctx.call();
        match r {
            Err(p) => ctx.violation(&format!("panic/{name}"), json!({"entry": name, "input": show(input), "panic": p})),
            Ok(errs) => {
                if errs.is_empty() {
                    ctx.outcome("ok");
                }
                for e in errs {
                    check_err(ctx, name, input, &e, false);
                }
            }
        }
    }
}

fn lookup_errors(ctx: &mut Ctx, input: &[u8], paths: &[Vec<Seg>]) {
    for p in paths {
        let ptr = lazy::to_pointer(p);
        for (name, unchecked) in [("get", false), ("get_unchecked", true)] {
            if unchecked && crate::refjson::parse_doc(input, crate::refjson::Mode::Decode).is_err() {
                continue;
            }
            let r = guard(|| if unchecked { unsafe { sonic_rs::get_unchecked(input, &ptr).map(|_| ()) } } else { sonic_rs::get(input, &ptr).map(|_| ()) });
            ctx.state();
            ctx.call();
            match r {
                Err(pn) => ctx.violation(&format!("panic/{name}"), json!({"entry": name, "input": show(input), "panic": pn})),
                Ok(Ok(())) => ctx.outcome("ok"),
                Ok(Err(e)) => check_err(ctx, name, input, &e, true),
            }
        }
    }
    // get_many / get_by_schema
    let r = guard(|| {
        let mut tree = PointerTree::new();
        for p in paths.iter().take(2) {
            tree.add_path(lazy::to_pointer(p).iter());
        }
        sonic_rs::get_many(input, &tree).map(|_| ())
    });
    ctx.state();
    ctx.call();
    match r {
        Err(pn) => {
            // shape-inconsistent trees are outside the API contract
            if !pn.contains("unreachable") {
                ctx.violation("panic/get_many", json!({"input": show(input), "panic": pn}))
            }
        }
        Ok(Ok(())) => ctx.outcome("ok"),
        Ok(Err(e)) => check_err(ctx, "get_many", input, &e, true),
    }
    let r = guard(|| sonic_rs::get_by_schema(input, sonic_rs::json!({"a": null, "b": {"a": 1}})).map(|_| ()));
    ctx.state();
    ctx.call();
    match r {
        Err(pn) => ctx.violation("panic/get_by_schema", json!({"input": show(input), "panic": pn})),
        Ok(Ok(())) => ctx.outcome("ok"),
        Ok(Err(e)) => check_err(ctx, "get_by_schema", input, &e, true),
    }
}

/// streams and iterators: errors located; nothing after an error or the end
fn termination(ctx: &mut Ctx, input: &[u8]) {
    macro_rules! stream {
        ($ty:ty, $name:expr) => {{
            let r = guard(|| {
                let mut st = Deserializer::from_slice(input).into_stream::<$ty>();
                let mut seq: Vec<Option<Result<(), sonic_rs::Error>>> = vec![];
                let mut after = 0;
                // bounded: a stream over n bytes yields at most n+1 items
                for _ in 0..input.len() + 6 {
                    let it = st.next().map(|r| r.map(|_| ()));
                    let stop = !matches!(it, Some(Ok(())));
                    seq.push(it);
                    if stop {
                        after += 1;
                        if after > 3 {
                            break;
                        }
                    }
                }
                seq
            });
            ctx.state();
            ctx.call();
            match r {
                Err(p) => ctx.violation(concat!("panic/", $name), json!({"entry": $name, "input": show(input), "panic": p})),
                Ok(seq) => {
                    let first_stop = seq.iter().position(|x| !matches!(x, Some(Ok(()))));
                    match first_stop {
                        None => ctx.violation(concat!("stream-never-ends/", $name), json!({"entry": $name, "input": show(input), "items": seq.len()})),
                        Some(i) => {
                            if let Some(Err(e)) = &seq[i] {
                                check_err(ctx, $name, input, e, false);
                            }
                            if seq[i + 1..].iter().any(|x| x.is_some()) {
                                ctx.outcome("VIOL:yields-after-end");
                                ctx.violation(
                                    concat!("yields-after-error-or-end/", $name),
                                    json!({"entry": $name, "input": show(input), "sequence": seq.iter().map(|x| match x { None => "None", Some(Ok(())) => "Ok", Some(Err(_)) => "Err" }).collect::<Vec<_>>()}),
                                );
                            } else {
                                ctx.outcome("stream:latched");
                            }
                        }
                    }
                }
            }
        }};
    }
    stream!(Value, "stream<Value>");
    stream!(u8, "stream<u8>");
    stream!(String, "stream<String>");
    stream!(Vec<bool>, "stream<Vec<bool>>");
    stream!(OwnedLazyValue, "stream<OwnedLazyValue>");
    stream!(serde::de::IgnoredAny, "stream<IgnoredAny>");
    // iterators: positions of their errors
    for object in [false, true] {
        let r = guard(|| {
            let mut errs = vec![];
            if object {
                for it in sonic_rs::to_object_iter(input) {
                    if let Err(e) = it {
                        errs.push(e);
                    }
                }
            } else {
                for it in sonic_rs::to_array_iter(input) {
                    if let Err(e) = it {
                        errs.push(e);
                    }
                }
            }
            errs
        });
        ctx.state();
        ctx.call();
        match r {
            Err(p) => ctx.violation("panic/lazy-iterator", json!({"input": show(input), "panic": p})),
            Ok(errs) => {
                if errs.len() > 1 {
                    ctx.violation("iterator-yields-two-errors", json!({"input": show(input), "errors": errs.len()}));
                }
                for e in errs {
                    check_err(ctx, if object { "to_object_iter" } else { "to_array_iter" }, input, &e, false);
                }
            }
        }
    }
}

pub fn check_all(ctx: &mut Ctx, input: &[u8], paths: &[Vec<Seg>]) {
    typed_errors(ctx, input);
    lookup_errors(ctx, input, paths);
    termination(ctx, input);
    ctx.sample(|| json!({"input": String::from_utf8_lossy(input)}));
}

pub fn multiline_seeds() -> Vec<Vec<u8>> {
    let toks: Vec<Vec<&'static [u8]>> = vec![
        vec![b"{", b"\"a\"", b":", b"[", b"1", b",", b"\"x\\n\"", b",", b"true", b"]", b",", b"\"b\"", b":", b"{", b"\"a\"", b":", b"-1.5e3", b"}", b"}"],
        vec![b"[", b"{", b"\"a\"", b":", b"\"\xc3\xa9\xf0\x9f\x98\x80\"", b"}", b",", b"[", b"null", b",", b"18446744073709551616", b"]", b",", b"\"B\"", b"]"],
        vec![b"{", b"\"A\"", b":", b"0", b",", b"\"b\"", b":", b"\"s\"", b"}"],
    ];
    let mut out = vec![];
    for t in &toks {
        // newline at every token boundary in turn, and at all of them
        for nl in 0..=t.len() + 1 {
            let mut d = vec![];
            for (i, x) in t.iter().enumerate() {
                if nl == i || nl == t.len() + 1 {
                    d.extend_from_slice(b"\n  ");
                }
                d.extend_from_slice(x);
            }
            if nl == t.len() {
                d.extend_from_slice(b"\n");
            }
            out.push(d);
        }
    }
    out
}

pub fn families(tier: Tier, variant: &str) -> Vec<Family> {
    let q = tier == Tier::Quick;
    // (a) every rejection of the C02 spaces (smaller bounds: the C02 families are position-checked
    // for every framing and entry point)
    let mut v: Vec<Family> = c02::families(tier, variant, c02::Mode::ErrorPositions)
        .into_iter()
        .filter(|f| !q || !f.name.starts_with("digit-run"))
        .collect();
    let paths: Vec<Vec<Seg>> = vec![
        vec![Seg::Key("a".into())],
        vec![Seg::Key("b".into()), Seg::Key("a".into())],
        vec![Seg::Idx(1)],
        vec![Seg::Idx(0), Seg::Key("a".into())],
        vec![Seg::Key("a".into()), Seg::Idx(2)],
        vec![],
    ];
    // (b) multi-line documents: every prefix and every single-byte substitution
    let seeds = multiline_seeds();
    let interesting: Vec<u8> = if q { b"\"\\{}[],:0-.eEx \n\x00\x7f\x80\xff".to_vec() } else { (0..=255u8).collect() };
    let ni = interesting.len() as u64;
    let mut index: Vec<(u32, u32)> = vec![];
    for (si, s) in seeds.iter().enumerate() {
        if q && si % 3 != 0 {
            continue;
        }
        for pos in 0..s.len() {
            index.push((si as u32, pos as u32));
        }
    }
    {
        let seeds2 = seeds.clone();
        let p2 = paths.clone();
        let idx2 = index.clone();
        v.push(Family::new("multiline/substitutions", index.len() as u64 * ni, move |idx, ctx| {
            let (si, pos) = idx2[(idx / ni) as usize];
            let mut d = seeds2[si as usize].clone();
            let b = interesting[(idx % ni) as usize];
            if d[pos as usize] == b {
                return;
            }
            d[pos as usize] = b;
            check_all(ctx, &d, &p2);
        }));
    }
    {
        let seeds2 = seeds.clone();
        let p2 = paths.clone();
        v.push(Family::new("multiline/prefixes", index.len() as u64, move |idx, ctx| {
            let (si, pos) = index[idx as usize];
            check_all(ctx, &seeds2[si as usize][..pos as usize], &p2);
        }));
    }
    // (b2) error messages made by visitors and by user code that themselves contain text looking like
    // a position (" at line 7 column 9" + newline): unknown variant / field names, an inner JSON
    // document parsed by a `deserialize_with` function whose error is forwarded with `custom`
    {
        fn inner_json<'de, D: serde::Deserializer<'de>>(d: D) -> Result<u8, D::Error> {
            let s = String::deserialize(d)?;
            sonic_rs::from_str::<u8>(&s).map_err(serde::de::Error::custom)
        }
        #[derive(Deserialize, Debug)]
        #[allow(dead_code)]
        struct Inner {
            #[serde(deserialize_with = "inner_json")]
            s: u8,
        }
        let texts: Vec<String> = [
            "\"x at line 7 column 9\\n\"",
            "\"x at line 7 column 9\"",
            " \n\"B at line 1 column 1\\n\\n\\tB\"",
            "{\"x at line 7 column 9\\n\":1}",
            "\n\n {\"a\":1,\"b-b\":\"x\",\"y at line 3 column 1\\n\":0}",
            "{\"a\":[1],\"b\":null,\"zz at line 9 column 9\\n\":true}",
            "{\"s\":\"[1,\\n 2 x\"}",
            "\n{\"s\":\"{\\\"k\\\": tru\"}",
            "[{\"s\":\"7\"},{\"s\":\"\\n\\n  300\"}]",
            "{\"s\":\"1 at line 5 column 5\\n\"}",
        ]
        .iter()
        .map(|s| s.to_string())
        .collect();
        v.push(Family::of_vec("position-like-text-in-messages", texts, |s, ctx| {
            macro_rules! t {
                ($ty:ty, $name:expr) => {{
                    for slice in [false, true] {
                        let r = guard(|| if slice { sonic_rs::from_slice::<$ty>(s.as_bytes()).map(|_| ()) } else { sonic_rs::from_str::<$ty>(s).map(|_| ()) });
                        ctx.state();
                        ctx.call();
                        match r {
                            Err(p) => ctx.violation(concat!("panic/", $name), json!({"entry": $name, "text": s, "panic": p})),
                            Ok(Ok(())) => ctx.outcome("ok"),
                            Ok(Err(e)) => check_err(ctx, $name, s.as_bytes(), &e, false),
                        }
                    }
                }};
            }
            t!(crate::types::UnitEnum, "from_str<UnitEnum>");
            t!(E, "from_str<enum>");
            t!(crate::types::Strict, "from_str<Strict>");
            t!(S, "from_str<struct>");
            t!(Inner, "from_str<struct{deserialize_with}>");
            t!(Vec<Inner>, "from_str<Vec<struct{deserialize_with}>>");
            t!(crate::types::Internal, "from_str<Internal>");
            t!(crate::types::Untagged, "from_str<Untagged>");
            // the stream deserializer reports the same
            let r = guard(|| sonic_rs::Deserializer::from_str(s).into_stream::<Inner>().next());
            ctx.state();
            ctx.call();
            if let Ok(Some(Err(e))) = r {
                check_err(ctx, "stream<struct{deserialize_with}>", s.as_bytes(), &e, false);
            }
        }));
    }
    // (c) token sequences through the typed / lookup / stream entry points
    {
        let k = gen::T16.len() as u64;
        let l = if q { 3 } else { 4 };
        let p2 = paths.clone();
        v.push(Family::new("t16-full/typed+lookup+streams", gen::seq_count(k, l), move |idx, ctx| {
            let mut seq = vec![];
            gen::nth_seq(k, l, idx, &mut seq);
            let mut d = vec![];
            gen::concat(gen::T16, &seq, &mut d);
            check_all(ctx, &d, &p2);
        }));
    }
    // (c2) every rejected text of the type-directed C04 spaces, per target type
    macro_rules! directed {
        ($t:ty) => {{
            let texts = crate::props::c04::directed_texts::<$t>(!q);
            v.push(Family::of_vec(&format!("typed-directed/{}", <$t as crate::types::Fam>::NAME), texts, |s, ctx| {
                for slice in [false, true] {
                    let r = guard(|| if slice { sonic_rs::from_slice::<$t>(s.as_bytes()).map(|_| ()) } else { sonic_rs::from_str::<$t>(s).map(|_| ()) });
                    ctx.state();
                    ctx.call();
                    match r {
                        Err(p) => ctx.violation("panic/typed-directed", json!({"type": <$t as crate::types::Fam>::NAME, "text": s, "panic": p})),
                        Ok(Ok(())) => ctx.outcome("ok"),
                        Ok(Err(e)) => check_err(ctx, &format!("from_str<{}>", <$t as crate::types::Fam>::NAME), s.as_bytes(), &e, false),
                    }
                }
                // the same text on a second line: positions must follow
                let shifted = format!("\n \n{}", s);
                if let Ok(Err(e)) = guard(|| sonic_rs::from_str::<$t>(&shifted).map(|_| ())) {
                    check_err(ctx, &format!("from_str<{}>(line 3)", <$t as crate::types::Fam>::NAME), shifted.as_bytes(), &e, false);
                }
            }));
        }};
    }
    crate::for_each_fam!(directed);
    // (d) streams of several documents with separators / junk
    {
        let items: Vec<&'static [u8]> = vec![b"1", b"\"a\"", b"[true]", b"{\"a\":1}", b" ", b"\n", b",", b"x", b"]", b"1e999", b"\"\\ud800\"", b"\xff"];
        let k = items.len() as u64;
        let l = if q { 4 } else { 5 };
        let p2 = paths.clone();
        v.push(Family::new("stream-sequences", gen::seq_count(k, l), move |idx, ctx| {
            let mut seq = vec![];
            gen::nth_seq(k, l, idx, &mut seq);
            let mut d = vec![];
            gen::concat(&items, &seq, &mut d);
            termination(ctx, &d);
            lookup_errors(ctx, &d, &p2[..2]);
        }));
    }
    v
}
