//! C05 - serialization always emits well-formed JSON that denotes the serialized value;
//! writer faults are returned and what was written is a prefix of the correct output.

use std::{
    collections::BTreeMap,
    io::{self, Write},
};

use bytes::{BufMut, BytesMut};
use serde::Serialize;
use serde_json::json;
use sonic_rs::writer::BufferedWriter;

use crate::{
    engine::{guard, hex, Ctx, Family, Tier},
    fence, gen,
    refjson::{self, Mode as RMode},
    types::Fam,
};

/// Specification escaper check: `out` must be `"` + body + `"` where every char >= 0x20 other
/// than `"` and `\` appears verbatim and `"`, `\` and C0 controls appear as an escape sequence
/// that decodes to them; nothing else is escaped.
pub fn check_escaped(out: &[u8], s: &str) -> Result<(), String> {
    if out.len() < 2 || out[0] != b'"' || out[out.len() - 1] != b'"' {
        return Err("not quoted".into());
    }
    if std::str::from_utf8(out).is_err() {
        return Err("output is not UTF-8".into());
    }
    let body = &out[1..out.len() - 1];
    let mut i = 0;
    let mut chars = s.chars();
    while i < body.len() {
        let want = chars.next().ok_or("output longer than the string")?;
        let b = body[i];
        if b == b'\\' {
            // an escape: only allowed for ", \ and C0 controls
            if !(want == '"' || want == '\\' || (want as u32) < 0x20) {
                return Err(format!("character {:?} is escaped but must be verbatim", want));
            }
            let (dec, len): (u32, usize) = match body.get(i + 1) {
                Some(b'"') => ('"' as u32, 2),
                Some(b'\\') => ('\\' as u32, 2),
                Some(b'b') => (8, 2),
                Some(b'f') => (12, 2),
                Some(b'n') => (10, 2),
                Some(b'r') => (13, 2),
                Some(b't') => (9, 2),
                Some(b'u') => {
                    let h = body.get(i + 2..i + 6).ok_or("truncated \\u escape")?;
                    let hs = std::str::from_utf8(h).map_err(|_| "bad \\u escape")?;
                    (u32::from_str_radix(hs, 16).map_err(|_| "bad hex in \\u escape")?, 6)
                }
                other => return Err(format!("invalid escape \\{:?}", other.map(|c| *c as char))),
            };
            if dec != want as u32 {
                return Err(format!("escape decodes to U+{:04X}, expected {:?}", dec, want));
            }
            i += len;
        } else {
            if want == '"' || want == '\\' || (want as u32) < 0x20 {
                return Err(format!("character {:?} must be escaped but is written raw", want));
            }
            let mut buf = [0u8; 4];
            let enc = want.encode_utf8(&mut buf).as_bytes();
            if body.get(i..i + enc.len()) != Some(enc) {
                return Err(format!("character {:?} is not written verbatim at output offset {}", want, i + 1));
            }
            i += enc.len();
        }
    }
    if chars.next().is_some() {
        return Err("output shorter than the string".into());
    }
    Ok(())
}

/// reference pretty printer: re-indent a compact well-formed text (2 spaces, ": " after keys)
pub fn reindent(compact: &[u8]) -> Vec<u8> {
    let mut out = vec![];
    let mut depth = 0usize;
    let mut i = 0;
    let nl = |out: &mut Vec<u8>, d: usize| {
        out.push(b'\n');
        for _ in 0..d {
            out.extend_from_slice(b"  ");
        }
    };
    while i < compact.len() {
        let c = compact[i];
        match c {
            b'"' => {
                let st = i;
                i += 1;
                while compact[i] != b'"' {
                    if compact[i] == b'\\' {
                        i += 1;
                    }
                    i += 1;
                }
                i += 1;
                out.extend_from_slice(&compact[st..i]);
                continue;
            }
            b'[' | b'{' => {
                let close = if c == b'[' { b']' } else { b'}' };
                if compact[i + 1] == close {
                    out.push(c);
                    out.push(close);
                    i += 2;
                    continue;
                }
                out.push(c);
                depth += 1;
                nl(&mut out, depth);
            }
            b']' | b'}' => {
                depth -= 1;
                nl(&mut out, depth);
                out.push(c);
            }
            b',' => {
                out.push(c);
                nl(&mut out, depth);
            }
            b':' => out.extend_from_slice(b": "),
            _ => out.push(c),
        }
        i += 1;
    }
    out
}

#[derive(Clone, Copy, Debug, PartialEq)]
pub enum W {
    ToString,
    ToVec,
    VecWriter,
    MutVecWriter,
    BoxVecWriter,
    BytesMutOwned,
    BytesMutRef,
    Buffered,
    IoBufWriter,
    IoBufWriterSmall,
}
pub const WRITERS: &[W] = &[W::ToString, W::ToVec, W::VecWriter, W::MutVecWriter, W::BoxVecWriter, W::BytesMutOwned, W::BytesMutRef, W::Buffered, W::IoBufWriter, W::IoBufWriterSmall];

pub fn write_with<T: Serialize + ?Sized>(w: W, v: &T, pretty: bool) -> Result<Vec<u8>, String> {
    let e = |e: sonic_rs::Error| e.to_string();
    Ok(match w {
        W::ToString => (if pretty { sonic_rs::to_string_pretty(v) } else { sonic_rs::to_string(v) }).map_err(e)?.into_bytes(),
        W::ToVec => (if pretty { sonic_rs::to_vec_pretty(v) } else { sonic_rs::to_vec(v) }).map_err(e)?,
        W::VecWriter => {
            let mut o = Vec::new();
            (if pretty { sonic_rs::to_writer_pretty(&mut o, v) } else { sonic_rs::to_writer(&mut o, v) }).map_err(e)?;
            o
        }
        W::MutVecWriter => {
            let mut o = vec![b'#'];
            {
                let r = &mut o;
                (if pretty { sonic_rs::to_writer_pretty(r, v) } else { sonic_rs::to_writer(r, v) }).map_err(e)?;
            }
            o.remove(0);
            o
        }
        W::BoxVecWriter => {
            let mut o: Box<Vec<u8>> = Box::new(Vec::new());
            (if pretty { sonic_rs::to_writer_pretty(&mut o, v) } else { sonic_rs::to_writer(&mut o, v) }).map_err(e)?;
            *o
        }
        W::BytesMutOwned => {
            let mut wr = BytesMut::new().writer();
            (if pretty { sonic_rs::to_writer_pretty(&mut wr, v) } else { sonic_rs::to_writer(&mut wr, v) }).map_err(e)?;
            wr.into_inner().to_vec()
        }
        W::BytesMutRef => {
            let mut b = BytesMut::with_capacity(1);
            {
                let wr = (&mut b).writer();
                (if pretty { sonic_rs::to_writer_pretty(wr, v) } else { sonic_rs::to_writer(wr, v) }).map_err(e)?;
            }
            b.to_vec()
        }
        W::Buffered => {
            let mut o = Vec::new();
            {
                let bw = BufferedWriter::new(&mut o);
                (if pretty { sonic_rs::to_writer_pretty(bw, v) } else { sonic_rs::to_writer(bw, v) }).map_err(e)?;
            }
            o
        }
        W::IoBufWriter => {
            let mut bw = io::BufWriter::new(Vec::new());
            (if pretty { sonic_rs::to_writer_pretty(&mut bw, v) } else { sonic_rs::to_writer(&mut bw, v) }).map_err(e)?;
            bw.into_inner().map_err(|e| e.to_string())?
        }
        W::IoBufWriterSmall => {
            let mut bw = io::BufWriter::with_capacity(3, Vec::new());
            (if pretty { sonic_rs::to_writer_pretty(&mut bw, v) } else { sonic_rs::to_writer(&mut bw, v) }).map_err(e)?;
            bw.into_inner().map_err(|e| e.to_string())?
        }
    })
}

fn viol(ctx: &mut Ctx, class: &str, what: serde_json::Value, msg: String) {
    ctx.outcome("VIOL");
    ctx.violation(class, json!({"value": what, "mismatch": msg}));
}

/// one string through every writer, bare / as key / in a Vec / as chars
pub fn check_string(ctx: &mut Ctx, s: &str, all_writers: bool) {
    let descr = || json!({"string": s, "utf8_hex": hex(s.as_bytes()), "len": s.len()});
    ctx.nontrivial();
    let r = guard(|| -> Result<(), String> {
        let base = sonic_rs::to_string(s).map_err(|e| e.to_string())?;
        check_escaped(base.as_bytes(), s)?;
        // the reference parse gives the string back
        let n = refjson::parse_doc(base.as_bytes(), RMode::Decode).map_err(|r| format!("output {:?} not well-formed: {:?}", base, r.reason))?;
        match &n.kind {
            refjson::Kind::Str { val, .. } if val == s => {}
            _ => return Err(format!("output {:?} does not denote the string", base)),
        }
        let writers: &[W] = if all_writers { WRITERS } else { &WRITERS[..3] };
        for w in writers {
            for pretty in [false, true] {
                let o = write_with(*w, s, pretty)?;
                if o != base.as_bytes() {
                    return Err(format!("writer {:?} pretty={} gives {:?} instead of {:?}", w, pretty, String::from_utf8_lossy(&o), base));
                }
            }
        }
        // as map key and value, in a sequence
        let m: BTreeMap<&str, &str> = [(s, s)].into_iter().collect();
        let o = sonic_rs::to_string(&m).map_err(|e| e.to_string())?;
        if o != format!("{{{}:{}}}", base, base) {
            return Err(format!("as map key/value: {:?}", o));
        }
        let v = vec![s, "", s];
        let o = sonic_rs::to_string(&v).map_err(|e| e.to_string())?;
        if o != format!("[{},\"\",{}]", base, base) {
            return Err(format!("in a Vec: {:?}", o));
        }
        let o = sonic_rs::to_string_pretty(&v).map_err(|e| e.to_string())?;
        if o.as_bytes() != reindent(format!("[{},\"\",{}]", base, base).as_bytes()) {
            return Err(format!("pretty Vec: {:?}", o));
        }
        // as chars
        if s.chars().count() <= 8 {
            let cs: Vec<char> = s.chars().collect();
            let o = sonic_rs::to_string(&cs).map_err(|e| e.to_string())?;
            let on = refjson::parse_doc(o.as_bytes(), RMode::Decode).map_err(|r| format!("chars output {:?} not well-formed: {:?}", o, r.reason))?;
            if let refjson::Kind::Arr(items) = &on.kind {
                for (c, it) in cs.iter().zip(items.iter()) {
                    check_escaped(it.text(o.as_bytes()), &c.to_string())?;
                }
            }
        }
        // Value::from(&str) and Display of it
        let val = sonic_rs::Value::from(s);
        if sonic_rs::to_string(&val).map_err(|e| e.to_string())? != base || format!("{}", val) != base {
            return Err("Value::from(&str) serializes differently".into());
        }
        Ok(())
    });
    ctx.state();
    ctx.calls(if all_writers { 28 } else { 12 });
    match r {
        Ok(Ok(())) => ctx.outcome("string:exact"),
        Ok(Err(m)) => viol(ctx, "string-output", descr(), m),
        Err(p) => viol(ctx, "panic/string", descr(), p),
    }
    ctx.tr(|t| {
        if let Ok(o) = sonic_rs::to_string(s) {
            t.str(&o)
        }
    });
    ctx.sample(descr);
}

/// fenced: the source string ends exactly at a page boundary followed by a guard page
pub fn check_string_fenced(ctx: &mut Ctx, s: &str) {
    let owned = s.to_string();
    let o = fence::on_fresh_thread(2 << 20, move || {
        let boxed: Box<str> = owned.clone().into_boxed_str();
        drop(owned);
        let r = (|| -> Result<(), String> {
            let base = sonic_rs::to_string(&*boxed).map_err(|e| e.to_string())?;
            fence::unarmed(|| check_escaped(base.as_bytes(), &boxed))?;
            for w in [W::VecWriter, W::BytesMutOwned, W::Buffered, W::IoBufWriter] {
                let o = write_with(w, &*boxed, false)?;
                if o != base.as_bytes() {
                    return fence::unarmed(|| Err(format!("writer {:?} differs", w)));
                }
            }
            let m: BTreeMap<&str, Vec<&str>> = [(&*boxed, vec![&*boxed])].into_iter().collect();
            let o = sonic_rs::to_string_pretty(&m).map_err(|e| e.to_string())?;
            let want = format!("{{{}:[{}]}}", base, base);
            if fence::unarmed(|| o.as_bytes() != reindent(want.as_bytes())) {
                return fence::unarmed(|| Err("pretty map output differs".to_string()));
            }
            Ok(())
        })();
        drop(boxed);
        fence::unarmed(|| r.err())
    });
    ctx.state();
    ctx.calls(7);
    ctx.nontrivial();
    let descr = || json!({"string": s, "utf8_hex": hex(s.as_bytes()), "len": s.len()});
    match o.result {
        Ok(None) => ctx.outcome("string:exact(fenced)"),
        Ok(Some(m)) => viol(ctx, "string-output(fenced)", descr(), m),
        Err(p) => viol(ctx, "panic/string(fenced)", descr(), p),
    }
    if o.leaked_allocs != 0 {
        viol(ctx, "leak/serializer", descr(), format!("{} live allocations left", o.leaked_allocs));
    }
}

/// typed values: compare with serde_json's data model, pretty vs re-indented compact, all writers
pub fn check_typed<T: Serialize + std::fmt::Debug>(ctx: &mut Ctx, name: &str, x: &T) {
    ctx.state();
    ctx.calls(22);
    ctx.nontrivial();
    let descr = || json!({"type": name, "value": format!("{:?}", x)});
    let r = guard(|| -> Result<&'static str, String> {
        let mine = sonic_rs::to_string(x);
        let theirs = serde_json::to_string(x);
        let base = match (mine, theirs) {
            (Ok(a), Ok(b)) => {
                let na = refjson::parse_doc(a.as_bytes(), RMode::Decode).map_err(|r| format!("output {:?} is not well-formed: {:?} at {}", a, r.reason, r.at))?;
                let nb = refjson::parse_doc(b.as_bytes(), RMode::Decode).map_err(|_| "serde_json output not well-formed".to_string())?;
                if na.dumps() != nb.dumps() {
                    return Err(format!("output {:?} denotes something else than the data model {:?}", a, b));
                }
                if a.bytes().any(|c| c == b' ' || c == b'\n') && !a.contains('"') {
                    return Err(format!("compact output {:?} contains whitespace", a));
                }
                a
            }
            (Err(_), Err(_)) => return Ok("both-reject"),
            (Ok(a), Err(e)) => {
                // sonic supports float keys, serde_json (this version) may not
                if e.to_string().contains("key must be a string") || e.to_string().contains("float key") {
                    let _ = refjson::parse_doc(a.as_bytes(), RMode::Decode).map_err(|r| format!("output {:?} is not well-formed: {:?}", a, r.reason))?;
                    a
                } else {
                    return Err(format!("serializes to {:?} where serde_json fails: {}", a, e));
                }
            }
            (Err(e), Ok(b)) => return Err(format!("fails ({}) where serde_json writes {:?}", e.to_string().lines().next().unwrap_or(""), b)),
        };
        let pretty = sonic_rs::to_string_pretty(x).map_err(|e| format!("pretty fails: {e}"))?;
        let want = reindent(base.as_bytes());
        if pretty.as_bytes() != want {
            return Err(format!("pretty {:?} is not the re-indented compact text {:?}", pretty, String::from_utf8_lossy(&want)));
        }
        for w in WRITERS {
            let o = write_with(*w, x, false)?;
            if o != base.as_bytes() {
                return Err(format!("writer {:?} gives {:?} instead of {:?}", w, String::from_utf8_lossy(&o), base));
            }
            let o = write_with(*w, x, true)?;
            if o != pretty.as_bytes() {
                return Err(format!("writer {:?} (pretty) gives {:?} instead of {:?}", w, String::from_utf8_lossy(&o), pretty));
            }
        }
        Ok("denotes-the-value")
    });
    match r {
        Ok(Ok(o)) => ctx.outcome(o),
        Ok(Err(m)) => viol(ctx, &format!("typed-output/{name}"), descr(), m),
        Err(p) => viol(ctx, &format!("panic/typed/{name}"), descr(), p),
    }
    ctx.tr(|t| {
        if let Ok(o) = sonic_rs::to_string(x) {
            t.str(&o)
        }
    });
    ctx.sample(descr);
}

// ------------------------------------------------------------------------------------------
// E3: writer fault points

#[derive(Clone, Copy, Debug, PartialEq)]
pub enum Fault {
    /// accept bytes until `n` have been taken, then fail every write
    ErrorAt(usize),
    /// never accept more than `k` bytes per call
    Short(usize),
    /// one `Interrupted` when `n` bytes have been taken, then normal
    InterruptedAt(usize),
    /// `Ok(0)` once `n` bytes have been taken
    ZeroAt(usize),
    /// interrupted at `i`, hard error at `j`
    InterruptedThenError(usize, usize),
    /// at most 1 byte per call and a hard error at `n`
    ShortAndErrorAt(usize),
}

pub struct Faulty {
    pub out: Vec<u8>,
    pub fault: Fault,
    pub interrupted_done: bool,
    pub flushes: usize,
}
impl Faulty {
    pub fn new(f: Fault) -> Self {
        Faulty { out: vec![], fault: f, interrupted_done: false, flushes: 0 }
    }
}
impl io::Write for Faulty {
    fn write(&mut self, buf: &[u8]) -> io::Result<usize> {
        if buf.is_empty() {
            return Ok(0);
        }
        let taken = self.out.len();
        let (limit, per_call, zero): (Option<usize>, usize, bool) = match self.fault {
            Fault::ErrorAt(n) => (Some(n), usize::MAX, false),
            Fault::Short(k) => (None, k.max(1), false),
            Fault::InterruptedAt(n) => {
                if taken >= n && !self.interrupted_done {
                    self.interrupted_done = true;
                    return Err(io::Error::new(io::ErrorKind::Interrupted, "interrupted"));
                }
                (None, if self.interrupted_done { usize::MAX } else { n - taken }, false)
            }
            Fault::ZeroAt(n) => (Some(n), usize::MAX, true),
            Fault::InterruptedThenError(i, j) => {
                if taken >= i && !self.interrupted_done {
                    self.interrupted_done = true;
                    return Err(io::Error::new(io::ErrorKind::Interrupted, "interrupted"));
                }
                (Some(j), if self.interrupted_done { usize::MAX } else { i - taken }, false)
            }
            Fault::ShortAndErrorAt(n) => (Some(n), 1, false),
        };
        let mut n = buf.len().min(per_call);
        if let Some(l) = limit {
            if taken >= l {
                return if zero { Ok(0) } else { Err(io::Error::new(io::ErrorKind::Other, "injected fault")) };
            }
            n = n.min(l - taken);
        }
        self.out.extend_from_slice(&buf[..n]);
        Ok(n)
    }
    fn flush(&mut self) -> io::Result<()> {
        self.flushes += 1;
        Ok(())
    }
}

#[derive(Clone, Copy, Debug)]
pub enum FW {
    Buffered,
    BoxBuffered,
    IoBufOverBuffered,
    IoBufSmallOverBuffered,
}
pub const FWS: &[FW] = &[FW::Buffered, FW::BoxBuffered, FW::IoBufOverBuffered, FW::IoBufSmallOverBuffered];

/// returns (call result is Ok, bytes accepted by the device)
pub fn write_faulty<T: Serialize>(fw: FW, v: &T, fault: Fault, pretty: bool) -> (bool, Vec<u8>) {
    let mut dev = Faulty::new(fault);
    let ok = match fw {
        FW::Buffered => {
            let w = BufferedWriter::new(&mut dev);
            (if pretty { sonic_rs::to_writer_pretty(w, v) } else { sonic_rs::to_writer(w, v) }).is_ok()
        }
        FW::BoxBuffered => {
            let w = Box::new(BufferedWriter::new(&mut dev));
            (if pretty { sonic_rs::to_writer_pretty(w, v) } else { sonic_rs::to_writer(w, v) }).is_ok()
        }
        FW::IoBufOverBuffered | FW::IoBufSmallOverBuffered => {
            let cap = if matches!(fw, FW::IoBufOverBuffered) { 8192 } else { 2 };
            let mut w = io::BufWriter::with_capacity(cap, BufferedWriter::new(&mut dev));
            let a = (if pretty { sonic_rs::to_writer_pretty(&mut w, v) } else { sonic_rs::to_writer(&mut w, v) }).is_ok();
            // the caller of a BufWriter flushes; a failure at either point counts as reported
            let b = w.flush().is_ok();
            let r = a && b;
            std::mem::forget(w.into_parts()); // do not flush again on drop
            r
        }
    };
    (ok, dev.out)
}

#[derive(Serialize, Debug, Clone)]
pub enum FV {
    S(String),
    Seq(Vec<String>),
    Map(BTreeMap<String, Vec<i64>>),
    Mixed((u8, Option<String>, BTreeMap<String, f64>, Vec<bool>)),
}

pub fn fault_values() -> Vec<FV> {
    vec![
        FV::S("a\"b\\c\n".into()),
        FV::Seq(vec!["a".into(), "b\u{1}".into(), "".into()]),
        FV::Map([("k\"".to_string(), vec![1, -2]), ("".to_string(), vec![])].into_iter().collect()),
        FV::Mixed((255, Some("x\u{e9}".into()), [("f".to_string(), 1.5)].into_iter().collect(), vec![true, false])),
        FV::S("x".repeat(70)),
    ]
}

pub fn check_fault(ctx: &mut Ctx, v: &FV, fw: FW, fault: Fault, pretty: bool) {
    let expected = (if pretty { sonic_rs::to_vec_pretty(v) } else { sonic_rs::to_vec(v) }).expect("serializable");
    let r = guard(|| write_faulty(fw, v, fault, pretty));
    ctx.state();
    ctx.call();
    let descr = || json!({"value": format!("{:?}", v), "writer": format!("{:?}", fw), "fault": format!("{:?}", fault), "pretty": pretty, "expected_len": expected.len()});
    match r {
        Err(p) => viol(ctx, "panic/faulty-writer", descr(), p),
        Ok((ok, accepted)) => {
            // does this fault plan ever refuse bytes of this output?
            let must_fail = match fault {
                Fault::ErrorAt(n) | Fault::ZeroAt(n) | Fault::ShortAndErrorAt(n) => n < expected.len(),
                Fault::InterruptedThenError(_, j) => j < expected.len(),
                Fault::Short(_) | Fault::InterruptedAt(_) => false,
            };
            if must_fail {
                ctx.nontrivial();
            }
            if !expected.starts_with(&accepted) {
                viol(ctx, "accepted-bytes-not-a-prefix", descr(), format!("device accepted {:?}, expected output {:?}", String::from_utf8_lossy(&accepted), String::from_utf8_lossy(&expected)));
            } else if must_fail && ok {
                viol(ctx, "writer-error-swallowed", descr(), format!("call returned Ok although the device refused bytes after {:?}", String::from_utf8_lossy(&accepted)));
            } else if !must_fail && !ok {
                viol(ctx, "spurious-error", descr(), format!("call failed although the device accepts everything (accepted {:?})", String::from_utf8_lossy(&accepted)));
            } else if !must_fail && accepted != expected {
                viol(ctx, "output-incomplete", descr(), format!("call returned Ok but the device holds {:?}", String::from_utf8_lossy(&accepted)));
            } else {
                ctx.outcome(if must_fail { "fault:reported,prefix" } else { "no-effective-fault:complete" });
            }
        }
    }
    ctx.sample(descr);
}

// ------------------------------------------------------------------------------------------

pub const A10: &[&str] = &["a", "\"", "\\", "\n", "\u{1}", "\u{1f}", "\u{7f}", "\u{e9}", "\u{1f600}", " "];

fn special_strings() -> Vec<&'static str> {
    vec!["\"", "\\", "\n", "\u{0}", "\u{1f}", "\u{7f}", "\u{e9}", "\u{1f600}", "/", "\u{2028}", "\t", "\u{8}", "\u{c}", "\r", "\u{80}"]
}

pub fn families(tier: Tier, variant: &str) -> Vec<Family> {
    let q = tier == Tier::Quick;
    let fast = variant.contains("fast");
    let mut v = vec![];
    // (a) strings
    {
        let k = A10.len() as u64;
        let l = if q { 4 } else { 6 };
        v.push(Family::new("strings/a10", gen::seq_count(k, l), move |idx, ctx| {
            let mut seq = vec![];
            gen::nth_seq(k, l, idx, &mut seq);
            let s: String = seq.iter().map(|i| A10[*i as usize]).collect();
            check_string(ctx, &s, seq.len() <= 3);
        }));
    }
    v.push(Family::new("strings/every-char<0x80+boundaries", 128 + 16, |idx, ctx| {
        let c = if idx < 128 {
            char::from_u32(idx as u32).unwrap()
        } else {
            ['\u{80}', '\u{7ff}', '\u{800}', '\u{d7ff}', '\u{e000}', '\u{fffd}', '\u{ffff}', '\u{10000}', '\u{10ffff}', '\u{2028}', '\u{2029}', '\u{feff}', '\u{a0}', '\u{ff}', '\u{100}', '\u{1f600}'][(idx - 128) as usize]
        };
        check_string(ctx, &c.to_string(), true);
        check_string(ctx, &format!("ab{}cd", c), false);
    }));
    {
        // positional sweep: one or two specials at every position of runs of every length
        let max_l: u64 = if q { 100 } else { 300 };
        let sp = special_strings();
        let ns = sp.len() as u64;
        let mut index: Vec<(u16, u16)> = vec![];
        for l in 0..=max_l {
            for p in 0..=l {
                if !q || l <= 70 || p % 3 == 0 || p + 2 >= l {
                    index.push((l as u16, p as u16));
                }
            }
        }
        let idx2 = index.clone();
        let sp2 = sp.clone();
        v.push(Family::new("strings/positional-one-special", index.len() as u64 * ns, move |idx, ctx| {
            let (l, p) = index[(idx / ns) as usize];
            let mut s: String = (0..p).map(|i| (b'a' + (i % 26) as u8) as char).collect();
            s.push_str(sp[(idx % ns) as usize]);
            s.extend((p..l).map(|i| (b'A' + (i % 26) as u8) as char));
            check_string(ctx, &s, false);
        }));
        let pairs: Vec<(&'static str, &'static str)> = vec![("\"", "\\"), ("\n", "\u{e9}"), ("\u{1f}", "\""), ("\u{1f600}", "\u{1}"), ("\\", "\\")];
        let np = pairs.len() as u64;
        let idx3: Vec<(u16, u16)> = idx2.iter().cloned().filter(|(l, _)| *l <= if q { 40 } else { 100 }).collect();
        v.push(Family::new("strings/positional-two-specials", idx3.len() as u64 * np * 3, move |idx, ctx| {
            let (l, p) = idx3[(idx / (np * 3)) as usize];
            let (a, b) = pairs[((idx / 3) % np) as usize];
            let gap = [0usize, 1, 31][(idx % 3) as usize];
            let mut s: String = (0..p).map(|i| (b'a' + (i % 26) as u8) as char).collect();
            s.push_str(a);
            s.extend((0..gap).map(|_| 'g'));
            s.push_str(b);
            s.extend((p..l).map(|i| (b'A' + (i % 26) as u8) as char));
            check_string(ctx, &s, false);
        }));
        // fenced: the string ends at a page boundary (guard page behind it)
        let max_f: u64 = if q { 70 } else { 200 };
        let sp3 = sp2.clone();
        let ns3 = sp3.len() as u64 + 1;
        let _ = fast;
        v.push(Family::new("strings/fenced-page-end", (max_f + 1) * ns3, move |idx, ctx| {
            let l = (idx / ns3) as usize;
            let k = (idx % ns3) as usize;
            let mut s: String = (0..l).map(|i| (b'a' + (i % 26) as u8) as char).collect();
            if k > 0 {
                // special as the very last character(s) of the buffer, and one in the middle
                s.push_str(sp3[k - 1]);
                if l > 2 {
                    s.insert_str(l / 2, sp3[k - 1]);
                }
            }
            check_string_fenced(ctx, &s);
        }));
    }
    // (b) typed values
    macro_rules! typed {
        ($t:ty) => {{
            v.push(Family::of_vec(&format!("typed/{}", <$t as Fam>::NAME), <$t as Fam>::universe(), |x, ctx| check_typed(ctx, <$t as Fam>::NAME, x)));
        }};
    }
    crate::for_each_fam!(typed);
    macro_rules! wrapped {
        ($t:ty) => {{
            let items: Vec<(Option<$t>, Vec<$t>, BTreeMap<String, $t>, crate::types::Shapes)> = <$t as Fam>::universe()
                .into_iter()
                .zip(<$t as Fam>::universe().into_iter())
                .zip(<$t as Fam>::universe().into_iter())
                .map(|((a, b), c)| (Some(a), vec![b], [("k\"".to_string(), c)].into_iter().collect(), crate::types::Shapes::Unit))
                .collect();
            v.push(Family::of_vec(&format!("typed/wrapped/{}", <$t as Fam>::NAME), items, |x, ctx| check_typed(ctx, concat!("wrapped ", stringify!($t)), x)));
        }};
    }
    crate::for_each_fam!(wrapped);
    v.push(Family::new("typed/non-finite-and-keys", 14, |idx, ctx| match idx {
        0 => check_typed(ctx, "f64", &f64::NAN),
        1 => check_typed(ctx, "f64", &f64::INFINITY),
        2 => check_typed(ctx, "f32", &f32::NEG_INFINITY),
        3 => check_typed(ctx, "Vec<f32>", &vec![f32::NAN, 1.0]),
        4 => check_typed(ctx, "(f64,)", &(f64::NEG_INFINITY,)),
        5 => check_typed(ctx, "map<u8,f64>", &[(1u8, f64::NAN)].into_iter().collect::<BTreeMap<u8, f64>>()),
        6 => check_typed(ctx, "map<Option<u8>,u8>", &[(Some(1u8), 1u8)].into_iter().collect::<BTreeMap<Option<u8>, u8>>()),
        7 => check_typed(ctx, "map<(u8,u8),u8>", &[((1u8, 2u8), 1u8)].into_iter().collect::<BTreeMap<(u8, u8), u8>>()),
        8 => check_typed(ctx, "map<Vec<u8>,u8>", &[(vec![1u8], 1u8)].into_iter().collect::<BTreeMap<Vec<u8>, u8>>()),
        9 => check_typed(ctx, "map<(),u8>", &[((), 1u8)].into_iter().collect::<BTreeMap<(), u8>>()),
        10 => check_typed(ctx, "map<i8,..>", &[(-1i8, "v")].into_iter().collect::<BTreeMap<i8, &str>>()),
        11 => check_typed(ctx, "map<bool,..>", &[(true, "v"), (false, "w")].into_iter().collect::<BTreeMap<bool, &str>>()),
        12 => check_typed(ctx, "map<char,..>", &[('"', 1), ('\\', 2), ('\n', 3)].into_iter().collect::<BTreeMap<char, u8>>()),
        _ => check_typed(ctx, "nested empties", &(Vec::<u8>::new(), BTreeMap::<String, u8>::new(), vec![Vec::<u8>::new()], Some(()), ())),
    }));
    // (c) fault enumeration
    {
        let vals = fault_values();
        // (value, writer, pretty, fault plan) : every fault point of every output
        let mut plan: Vec<(usize, usize, bool, Fault)> = vec![];
        for (vi, val) in vals.iter().enumerate() {
            for pretty in [false, true] {
                let n = (if pretty { sonic_rs::to_vec_pretty(val) } else { sonic_rs::to_vec(val) }).unwrap().len();
                for (wi, _) in FWS.iter().enumerate() {
                    // 0 deviations: a device that accepts everything
                    plan.push((vi, wi, pretty, Fault::Short(usize::MAX)));
                    // 1 deviation
                    for p in 0..=n + 1 {
                        plan.push((vi, wi, pretty, Fault::ErrorAt(p)));
                        plan.push((vi, wi, pretty, Fault::ZeroAt(p)));
                        plan.push((vi, wi, pretty, Fault::InterruptedAt(p)));
                        plan.push((vi, wi, pretty, Fault::ShortAndErrorAt(p)));
                    }
                    for k in [1usize, 2, 3, 7, 31, 32, 33] {
                        plan.push((vi, wi, pretty, Fault::Short(k)));
                    }
                    // 2 deviations
                    let step = if q { 3 } else { 1 };
                    let mut i = 0;
                    while i <= n {
                        let mut j = i;
                        while j <= n + 1 {
                            plan.push((vi, wi, pretty, Fault::InterruptedThenError(i, j)));
                            j += step;
                        }
                        i += step;
                    }
                }
            }
        }
        let vals2 = vals.clone();
        v.push(Family::of_vec("faults/every-point", plan, move |(vi, wi, pretty, fault), ctx| {
            check_fault(ctx, &vals2[*vi], FWS[*wi], *fault, *pretty)
        }));
    }
    v
}
