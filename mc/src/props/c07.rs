//! C07 - numbers are parsed exactly.

use serde_json::json;
use sonic_number::ParserNumber;
use sonic_rs::{JsonNumberTrait, Number, Value};

use crate::{
    engine::{guard, show, Ctx, Family, Tier},
    gen,
    refjson::{self, Num},
    walk,
};

// ------------------------------------------------------------------------------------------
// tiny big-number, only what the halfway family needs

#[derive(Clone)]
pub struct Big(Vec<u32>); // base 1e9, little endian
impl Big {
    pub fn from_u64(x: u64) -> Big {
        let mut v = vec![];
        let mut x = x;
        while x > 0 {
            v.push((x % 1_000_000_000) as u32);
            x /= 1_000_000_000;
        }
        Big(v)
    }
    pub fn mul_small(&mut self, m: u32) {
        let mut carry = 0u64;
        for d in self.0.iter_mut() {
            let t = *d as u64 * m as u64 + carry;
            *d = (t % 1_000_000_000) as u32;
            carry = t / 1_000_000_000;
        }
        while carry > 0 {
            self.0.push((carry % 1_000_000_000) as u32);
            carry /= 1_000_000_000;
        }
    }
    pub fn add_small(&mut self, a: u32) {
        let mut carry = a as u64;
        for d in self.0.iter_mut() {
            let t = *d as u64 + carry;
            *d = (t % 1_000_000_000) as u32;
            carry = t / 1_000_000_000;
            if carry == 0 {
                break;
            }
        }
        if carry > 0 {
            self.0.push(carry as u32);
        }
    }
    pub fn to_dec(&self) -> String {
        if self.0.is_empty() {
            return "0".into();
        }
        let mut s = format!("{}", self.0[self.0.len() - 1]);
        for d in self.0.iter().rev().skip(1) {
            s.push_str(&format!("{:09}", d));
        }
        s
    }
}

/// exact decimal text of m * 2^e (m > 0)
pub fn exact_decimal(m: u64, e: i32) -> String {
    let mut b = Big::from_u64(m);
    if e >= 0 {
        for _ in 0..e {
            b.mul_small(2);
        }
        b.to_dec()
    } else {
        let k = (-e) as usize;
        for _ in 0..k {
            b.mul_small(5);
        }
        let digits = b.to_dec();
        // value = digits / 10^k
        if digits.len() > k {
            let (a, f) = digits.split_at(digits.len() - k);
            format!("{}.{}", a, f)
        } else {
            format!("0.{}{}", "0".repeat(k - digits.len()), digits)
        }
    }
}

/// the decimal midpoint between the positive finite double `x` and its successor, plus the two
/// neighbours obtained by changing the last digit
pub fn halfway_literals(bits: u64) -> Vec<String> {
    let exp = ((bits >> 52) & 0x7ff) as i32;
    let frac = bits & ((1u64 << 52) - 1);
    let (m, e) = if exp == 0 { (frac, -1074) } else { (frac | (1u64 << 52), exp - 1075) };
    // midpoint = (2m+1) * 2^(e-1)
    let mid = exact_decimal(2 * m + 1, e - 1);
    let mut out = vec![mid.clone()];
    // neighbours: last digit +-1 (mid always ends with 5 when fractional; for integers it may not)
    let bytes = mid.as_bytes();
    let last = bytes[bytes.len() - 1];
    if last.is_ascii_digit() {
        if last > b'0' {
            let mut lo = bytes.to_vec();
            let n = lo.len();
            lo[n - 1] = last - 1;
            out.push(String::from_utf8(lo).unwrap());
        }
        if last < b'9' {
            let mut hi = bytes.to_vec();
            let n = hi.len();
            hi[n - 1] = last + 1;
            out.push(String::from_utf8(hi).unwrap());
        }
        // appended digit variants: mid followed by 0..01 (just above) and mid with the trailing 5 -> 49..9
        out.push(format!("{}{}", mid, if mid.contains('.') { "0000000001" } else { ".0000000001" }));
        // the same values written with an all-zero fraction / trailing zeros / an exponent
        let n = out.len();
        for i in 0..n.min(3) {
            let m = out[i].clone();
            if m.contains('.') {
                out.push(format!("{m}0"));
                out.push(format!("{m}000000000000000000000"));
            } else {
                out.push(format!("{m}.0"));
                out.push(format!("{m}.000000000000000000000"));
                out.push(format!("{m}e0"));
                out.push(format!("{m}0e-1"));
            }
        }
    }
    // the same midpoint continued by zeros and a final 1 so that the number of stored digits crosses
    // the 768-digit buffer of the big-decimal fallback at every residue of its 8-digit block copy
    if let Some(dot) = mid.find('.') {
        let frac = mid.len() - dot - 1;
        if frac < 700 {
            for total in (755..=777usize).chain([800, 1100]) {
                out.push(format!("{}{}1", mid, "0".repeat(total - frac - 1)));
            }
        }
    } else if mid.len() < 300 {
        for total in [760usize, 767, 768, 769, 775] {
            out.push(format!("{}.{}1", mid, "0".repeat(total - 1)));
        }
    }
    // truncated forms (17..40 significant digits) are further hard cases
    for keep in [17usize, 18, 19, 20, 21, 25, 33, 40] {
        let t = truncate_sig(&mid, keep);
        out.push(t);
    }
    out
}

fn truncate_sig(s: &str, keep: usize) -> String {
    // keep the first `keep` significant digits, zero-fill the integer part
    let mut out = String::new();
    let mut seen = 0usize;
    let mut started = false;
    let mut in_frac = false;
    for c in s.chars() {
        if c == '.' {
            in_frac = true;
            out.push(c);
            continue;
        }
        if c != '0' {
            started = true;
        }
        if started {
            seen += 1;
        }
        if seen > keep {
            if in_frac {
                break;
            }
            out.push('0');
        } else {
            out.push(c);
        }
    }
    if out.ends_with('.') {
        out.push('0');
    }
    out
}

// ------------------------------------------------------------------------------------------

fn viol(ctx: &mut Ctx, class: &str, lit: &str, msg: String) {
    ctx.outcome("VIOL");
    ctx.violation(class, json!({"literal": if lit.len() > 120 { format!("{}...({} bytes)", &lit[..120], lit.len()) } else { lit.to_string() }, "literal_hex_full": if lit.len() > 2000 { String::new() } else { crate::engine::hex(lit.as_bytes()) }, "mismatch": msg}));
}

fn pn_to_tuple(p: &ParserNumber) -> (bool, bool, bool, Option<u64>, Option<i64>, Option<f64>) {
    match *p {
        ParserNumber::Unsigned(u) => (true, u <= i64::MAX as u64, false, Some(u), i64::try_from(u).ok(), Some(u as f64)),
        ParserNumber::Signed(i) => (false, true, false, None, Some(i), Some(i as f64)),
        ParserNumber::Float(f) => (false, false, true, None, None, Some(f)),
    }
}

/// check one literal that is a grammatically valid JSON number
pub fn check_number(ctx: &mut Ctx, lit: &str, full_targets: bool) {
    let Some((is_int, neg)) = refjson::number_shape(lit.as_bytes()) else {
        ctx.outcome("skipped:not-a-number");
        return;
    };
    ctx.nontrivial();
    let want = refjson::classify_number(lit, is_int, neg);
    let finite = !matches!(want, Num::F(f) if !f.is_finite());
    // (1) sonic_number::parse_number directly, with different things behind the literal
    for tail in ["", " ", ",1]                              ", "                "] {
        let data = format!("{lit}{tail}");
        let r = guard(|| {
            let mut idx = neg as usize;
            let r = sonic_number::parse_number(data.as_bytes(), &mut idx, neg);
            (r, idx)
        });
        ctx.state();
        ctx.call();
        match r {
            Err(p) => viol(ctx, "panic/parse_number", &data, p),
            Ok((Ok(p), idx)) => {
                ctx.tr(|t| {
                    let x = pn_to_tuple(&p);
                    t.u64(x.3.unwrap_or(0));
                    t.u64(x.4.unwrap_or(0) as u64);
                    t.u64(x.5.map(|f| f.to_bits()).unwrap_or(0));
                });
                if !finite {
                    viol(ctx, "accepts-infinite/parse_number", &data, format!("{:?}", p));
                    continue;
                }
                if idx != lit.len() {
                    viol(ctx, "wrong-end/parse_number", &data, format!("index after number {} expected {}", idx, lit.len()));
                    continue;
                }
                let (iu, ii, fl, au, ai, af) = pn_to_tuple(&p);
                // Signed must be negative by contract; map to the accessor view
                let check = match (&p, lit) {
                    (ParserNumber::Float(f), "-0") if f.to_bits() == (-0.0f64).to_bits() => Ok(()),
                    (ParserNumber::Signed(0), "-0") => Ok(()),
                    _ => match (&want, &p) {
                        (Num::U(u), ParserNumber::Unsigned(x)) if u == x => Ok(()),
                        (Num::I(i), ParserNumber::Signed(x)) if i == x => Ok(()),
                        (Num::F(f), ParserNumber::Float(x)) if f.to_bits() == x.to_bits() => Ok(()),
                        _ => Err(format!("expected {:?} (bits {:x?}) got {:?} (u64? {iu} i64? {ii} f64? {fl} {au:?} {ai:?} {:x?})", want, match want { Num::F(f) => f.to_bits(), _ => 0 }, p, af.map(|f| f.to_bits()))),
                    },
                };
                match check {
                    Ok(()) => ctx.outcome(match want {
                        Num::U(_) => "exact:u64",
                        Num::I(_) => "exact:i64",
                        Num::F(_) => "exact:f64",
                    }),
                    Err(m) => viol(ctx, "wrong-value/parse_number", &data, m),
                }
            }
            Ok((Err(e), _)) => {
                ctx.tr(|t| t.bytes(b"E"));
                if finite {
                    viol(ctx, "rejects-valid/parse_number", &data, format!("{:?}", e));
                } else {
                    ctx.outcome("rejected:infinite");
                }
            }
        }
    }
    // (2) typed targets through from_str
    macro_rules! int_target {
        ($t:ty, $name:expr) => {{
            if lit != "-0" {
                let expect: Option<$t> = if is_int { lit.parse::<$t>().ok() } else { None };
                let got = guard(|| sonic_rs::from_str::<$t>(lit));
                ctx.state();
                ctx.call();
                match got {
                    Err(p) => viol(ctx, concat!("panic/from_str<", $name, ">"), lit, p),
                    Ok(r) => {
                        ctx.tr(|t| t.str(&format!("{:?}", r.as_ref().ok())));
                        match (expect, r) {
                            (Some(e), Ok(g)) if e == g => ctx.outcome("typed:int-ok"),
                            (None, Err(_)) => ctx.outcome("typed:int-rejected"),
                            (e, g) => viol(
                                ctx,
                                concat!("typed-integer/from_str<", $name, ">"),
                                lit,
                                format!("expected {:?} got {:?}", e, g.map_err(|e| e.to_string().lines().next().unwrap_or("").to_string())),
                            ),
                        }
                    }
                }
            }
        }};
    }
    int_target!(u64, "u64");
    int_target!(i64, "i64");
    if full_targets {
        int_target!(u8, "u8");
        int_target!(i8, "i8");
        int_target!(u16, "u16");
        int_target!(i16, "i16");
        int_target!(u32, "u32");
        int_target!(i32, "i32");
        int_target!(u128, "u128");
        int_target!(i128, "i128");
        int_target!(usize, "usize");
    }
    // f64 / f32
    {
        let expect: Option<f64> = lit.parse::<f64>().ok().filter(|f| f.is_finite());
        let got = guard(|| sonic_rs::from_str::<f64>(lit));
        ctx.state();
        ctx.call();
        match got {
            Err(p) => viol(ctx, "panic/from_str<f64>", lit, p),
            Ok(r) => {
                ctx.tr(|t| t.u64(r.as_ref().map(|f| f.to_bits()).unwrap_or(1)));
                match (expect, r) {
                    (Some(e), Ok(g)) if e.to_bits() == g.to_bits() => ctx.outcome("typed:f64-ok"),
                    (None, Err(_)) => ctx.outcome("typed:f64-rejected"),
                    (e, g) => viol(
                        ctx,
                        "typed-float/from_str<f64>",
                        lit,
                        format!("expected {:?} (bits {:x?}) got {:?} (bits {:x?})", e, e.map(|f| f.to_bits()), g.as_ref().map_err(|e| e.to_string().lines().next().unwrap_or("").to_string()), g.as_ref().ok().map(|f| f.to_bits())),
                    ),
                }
            }
        }
        // f32: the f64 result narrowed once (integer literals above 2^53 excluded: serde narrows the
        // integer directly, which is a different - and also single - rounding)
        let small_int = is_int && lit.trim_start_matches('-').len() <= 15;
        if !is_int || small_int {
            let expect32: Option<f32> = expect.map(|f| f as f32);
            let got = guard(|| sonic_rs::from_str::<f32>(lit));
            ctx.state();
            ctx.call();
            match got {
                Err(p) => viol(ctx, "panic/from_str<f32>", lit, p),
                Ok(r) => match (expect32, r) {
                    (Some(e), Ok(g)) if e.to_bits() == g.to_bits() => ctx.outcome("typed:f32-ok"),
                    (None, Err(_)) => ctx.outcome("typed:f32-rejected"),
                    // documented difference: a finite f64 that overflows f32 becomes inf
                    (e, g) => viol(ctx, "typed-float/from_str<f32>", lit, format!("expected {:?} got {:?}", e, g.map_err(|e| e.to_string().lines().next().unwrap_or("").to_string()))),
                },
            }
        }
    }
    // Number and Value
    {
        let got = guard(|| sonic_rs::from_str::<Number>(lit));
        ctx.state();
        ctx.call();
        match got {
            Err(p) => viol(ctx, "panic/from_str<Number>", lit, p),
            Ok(Ok(n)) => {
                if !finite {
                    viol(ctx, "accepts-infinite/from_str<Number>", lit, format!("{:?}", n));
                } else {
                    let node = refjson::parse_doc(lit.as_bytes(), refjson::Mode::Decode).unwrap();
                    let v: Value = sonic_rs::to_value(&n).unwrap_or_default();
                    let _ = v;
                    let ok = match (&want, lit) {
                        (_, "-0") => (n.is_f64() && n.as_f64().map(|f| f.to_bits()) == Some((-0.0f64).to_bits())) || n.as_i64() == Some(0),
                        (Num::U(u), _) => n.is_u64() && n.as_u64() == Some(*u),
                        (Num::I(i), _) => n.is_i64() && !n.is_u64() && n.as_i64() == Some(*i),
                        (Num::F(f), _) => n.is_f64() && n.as_f64().map(|x| x.to_bits()) == Some(f.to_bits()),
                    };
                    let _ = node;
                    if ok {
                        ctx.outcome("typed:Number-ok");
                    } else {
                        viol(ctx, "wrong-value/from_str<Number>", lit, format!("expected {:?} got {:?}", want, n));
                    }
                }
            }
            Ok(Err(e)) => {
                if finite {
                    viol(ctx, "rejects-valid/from_str<Number>", lit, e.to_string());
                } else {
                    ctx.outcome("typed:Number-rejected");
                }
            }
        }
        if finite {
            let node = refjson::parse_doc(lit.as_bytes(), refjson::Mode::Decode).unwrap();
            let got = guard(|| {
                let v: Value = sonic_rs::from_str(lit).map_err(|e| e.to_string())?;
                walk::cmp_value(&v, &node, lit.as_bytes(), cfg!(feature = "arbitrary_precision"))
            });
            ctx.state();
            ctx.call();
            match got {
                Ok(Ok(())) => ctx.outcome("typed:Value-ok"),
                Ok(Err(m)) => viol(ctx, "wrong-value/from_str<Value>", lit, m),
                Err(p) => viol(ctx, "panic/from_str<Value>", lit, p),
            }
        }
    }
    ctx.sample(|| json!({"literal": if lit.len() > 80 { &lit[..80] } else { lit }, "reference": format!("{:?}", want)}));
}

/// the value a literal denotes must not depend on what the same deserializer decoded before it:
/// the literal as second element after a string that went through the scratch buffer, as a map
/// value behind an escaped key, and as a quoted numeric key behind an escaped key - each compared
/// with the bare literal through the same target type (which `check_number` judges against std)
pub fn check_number_in_context(ctx: &mut Ctx, lit: &str) {
    if refjson::number_shape(lit.as_bytes()).is_none() {
        ctx.outcome("skipped:not-a-number");
        return;
    }
    ctx.nontrivial();
    macro_rules! target {
        ($t:ty, $name:expr) => {{
            let bare = guard(|| sonic_rs::from_str::<$t>(lit).ok());
            let pair_text = format!("[\"\\u0031x\\n\",{lit}]");
            let pair = guard(|| sonic_rs::from_str::<(String, $t)>(&pair_text).ok());
            let map_text = format!("{{\"k\\t\":{lit}}}");
            let map = guard(|| sonic_rs::from_str::<std::collections::BTreeMap<String, $t>>(&map_text).ok());
            ctx.state();
            ctx.calls(3);
            match (&bare, &pair, &map) {
                (Ok(b), Ok(p), Ok(m)) => {
                    let p_ok = match (b, p) {
                        (Some(b), Some((s, x))) => s == "1x\n" && format!("{:?}", b) == format!("{:?}", x),
                        (None, None) => true,
                        _ => false,
                    };
                    let m_ok = match (b, m) {
                        (Some(b), Some(m)) => m.len() == 1 && m.get("k\t").map(|x| format!("{:?}", x)) == Some(format!("{:?}", b)),
                        (None, None) => true,
                        _ => false,
                    };
                    if p_ok && m_ok {
                        ctx.outcome("context:same-as-bare");
                    } else {
                        viol(ctx, concat!("context-dependent/", $name), lit, format!("bare literal gives {:?}; after an escaped string in (String,T): {:?}; as map value behind an escaped key: {:?}", b, p, m));
                    }
                }
                _ => viol(ctx, concat!("panic/context/", $name), lit, "panic".to_string()),
            }
        }};
    }
    macro_rules! key_target {
        ($t:ty, $name:expr) => {{
                // quoted numeric key behind an escaped outer key
                let bare_key = guard(|| sonic_rs::from_str::<std::collections::BTreeMap<$t, u8>>(&format!("{{\"{lit}\":1}}")).ok());
                let nested_text = format!("{{\"a\\tb\":{{\"{lit}\":1}}}}");
                let nested = guard(|| sonic_rs::from_str::<std::collections::BTreeMap<String, std::collections::BTreeMap<$t, u8>>>(&nested_text).ok());
                ctx.state();
                ctx.calls(2);
                match (&bare_key, &nested) {
                    (Ok(b), Ok(n)) => {
                        let inner = n.as_ref().and_then(|m| m.get("a\tb"));
                        if format!("{:?}", b.as_ref()) == format!("{:?}", inner) && n.as_ref().map(|m| m.len() == 1).unwrap_or(true) {
                            ctx.outcome("context:key-same-as-bare");
                        } else {
                            viol(ctx, concat!("context-dependent-key/", $name), lit, format!("bare map gives {:?}; nested behind an escaped key: {:?}", b, n));
                        }
                    }
                    _ => viol(ctx, concat!("panic/context-key/", $name), lit, "panic".to_string()),
                }
        }};
    }
    target!(u8, "u8");
    target!(i16, "i16");
    target!(u64, "u64");
    target!(i64, "i64");
    target!(u128, "u128");
    target!(i128, "i128");
    target!(f64, "f64");
    target!(f32, "f32");
    key_target!(u8, "u8");
    key_target!(u64, "u64");
    key_target!(i64, "i64");
    key_target!(u128, "u128");
    key_target!(i128, "i128");
}

// ------------------------------------------------------------------------------------------
// families

fn digit_count_literals(max: usize) -> Vec<String> {
    let mut v = vec![];
    for n in 1..=max {
        let pats: Vec<String> = vec![
            "9".repeat(n),
            format!("1{}", "0".repeat(n - 1)),
            if n >= 2 { format!("1{}1", "0".repeat(n - 2)) } else { "1".into() },
            format!("5{}", "0".repeat(n - 1)),
            format!("4{}", "9".repeat(n - 1)),
        ];
        for p in pats {
            v.push(p.clone());
            v.push(format!("-{p}"));
            // dot at a few positions (all positions for short ones)
            let step = if n <= 40 { 1 } else { 7 };
            let mut d = 1;
            while d < n {
                let (a, b) = p.split_at(d);
                if !(a.len() > 1 && a.starts_with('0')) {
                    v.push(format!("{a}.{b}"));
                }
                d += step;
            }
            v.push(format!("0.{p}"));
            v.push(format!("0.{}{p}", "0".repeat(n.min(30))));
            v.push(format!("{p}e-{n}"));
            v.push(format!("{p}E+{}", 300usize.saturating_sub(n)));
            v.push(format!("{p}e{}", 308usize.saturating_sub(n) + 1));
        }
    }
    v
}

fn power_literals() -> Vec<String> {
    let mants = [
        "1", "2", "3", "5", "7", "9", "1.5", "2.5", "9.5", "1.25", "9.999999999999999", "1.7976931348623157", "1.7976931348623158",
        "1.7976931348623159", "2.2250738585072014", "2.2250738585072011", "2.2250738585072009", "4.9406564584124654",
        "4.9", "2.4703282292062327", "2.4703282292062328", "2.47", "8.98846567431158", "1.0000000000000002", "1.0000000000000001",
        "9007199254740993", "9007199254740992", "9007199254740991", "1.00000000000000011102230246251565404236316680908203125",
        "1.00000000000000011102230246251565404236316680908203124", "1.00000000000000011102230246251565404236316680908203126",
        "123456789012345678", "1234567890123456789", "12345678901234567890", "0.1", "0.3", "0.7", "6.02214076", "17976931348623157", "17976931348623158",
    ];
    let mut v = vec![];
    for e in -400i32..=400 {
        for m in mants.iter() {
            v.push(format!("{m}e{e}"));
            if e % 50 == 0 {
                v.push(format!("-{m}E{e:+}"));
            }
        }
    }
    v
}

fn boundary_int_literals() -> Vec<String> {
    let mut v = vec![];
    let centers: [u128; 8] = [
        u64::MAX as u128,
        i64::MAX as u128,
        (i64::MAX as u128) + 1,
        10u128.pow(19),
        10u128.pow(18),
        10u128.pow(20),
        u32::MAX as u128,
        1u128 << 53,
    ];
    for c in centers {
        for k in 0..=20u128 {
            for x in [c.wrapping_sub(k), c + k] {
                v.push(format!("{x}"));
                v.push(format!("-{x}"));
                v.push(format!("{x}.0"));
                v.push(format!("{x}e0"));
                v.push(format!("-{x}.5"));
            }
        }
    }
    for w in [u8::MAX as u128, i8::MAX as u128, u16::MAX as u128, i16::MAX as u128, i32::MAX as u128, u128::MAX, i128::MAX as u128] {
        for k in 0..=2u128 {
            for x in [w.wrapping_sub(k), w.saturating_add(k)] {
                v.push(format!("{x}"));
                v.push(format!("-{x}"));
            }
        }
    }
    v.push("340282366920938463463374607431768211456".into()); // u128::MAX+1
    v.push("-170141183460469231731687303715884105729".into()); // i128::MIN-1
    v.push("-170141183460469231731687303715884105728".into());
    v
}

fn exponent_literals() -> Vec<String> {
    let mut v = vec![];
    for e in ["0", "00", "000000000000000000001", "1", "+1", "-1", "22", "23", "37", "38", "307", "308", "309", "310", "324", "325", "400", "999", "1000", "1001", "9999", "99999", "2147483647", "2147483648", "4294967296", "99999999999999999999", "-307", "-308", "-323", "-324", "-325", "-400", "-999", "-1000", "-1001", "-2147483648", "-2147483649", "-99999999999999999999", "+0", "-0", "-000"] {
        for m in ["0", "1", "-1", "0.0", "1.0", "9", "0.000001", "123456789012345678901234567890", "0.000000000000000000000000000001", "1.7976931348623157", "4.9406564584124654", "2.4703282292062327", "2.4703282292062329"] {
            v.push(format!("{m}e{e}"));
            v.push(format!("{m}E{e}"));
        }
    }
    // zero-padded mantissas
    for z in [1usize, 2, 15, 16, 17, 31, 32, 33, 100, 400] {
        v.push(format!("0.{}1", "0".repeat(z)));
        v.push(format!("0.{}1e{}", "0".repeat(z), z));
        v.push(format!("1{}.{}1", "0".repeat(z), "0".repeat(z)));
        v.push(format!("1{}e-{}", "0".repeat(z), z));
        v.push(format!("0.{}", "0".repeat(z)));
        v.push(format!("-0.{}e5", "0".repeat(z)));
    }
    v
}

pub fn halfway_bit_patterns(q: bool) -> Vec<u64> {
    let mut mants: Vec<u64> = vec![0, 1, 2, (1u64 << 52) - 2, (1u64 << 52) - 1, 0x5555_5555_5555_5, 0xAAAA_AAAA_AAAA_A, 0x8000_0000_0000_0, 0x7FFF_FFFF_FFFF_F];
    if !q {
        for b in 0..52 {
            mants.push(1u64 << b);
            mants.push(((1u64 << 52) - 1) ^ (1u64 << b));
        }
    } else {
        for b in [3, 17, 31, 47, 51] {
            mants.push(1u64 << b);
        }
    }
    let mut v = vec![];
    // biased exponent 0 (subnormal) .. 2046
    let step = if q { 7 } else { 1 };
    let mut e = 0u64;
    while e <= 2046 {
        for m in &mants {
            if e == 0 && *m == 0 {
                continue;
            }
            if e == 2046 && *m == (1u64 << 52) - 1 {
                // successor of MAX is infinity: the midpoint is the overflow threshold
            }
            v.push((e << 52) | m);
        }
        e += if e < 60 || e > 1990 || (1000..1100).contains(&e) { 1 } else { step };
    }
    v
}

pub fn families(tier: Tier, _variant: &str) -> Vec<Family> {
    let q = tier == Tier::Quick;
    let mut v = vec![];
    {
        let k = gen::N10.len() as u64;
        let l = if q { 6 } else { 8 };
        v.push(Family::new("n10-strings", gen::seq_count(k, l), move |idx, ctx| {
            let mut seq = vec![];
            gen::nth_seq(k, l, idx, &mut seq);
            let mut d = vec![];
            gen::concat(gen::N10, &seq, &mut d);
            let s = String::from_utf8(d).unwrap();
            check_number(ctx, &s, false);
        }));
    }
    v.push(Family::of_vec("digit-counts", digit_count_literals(if q { 330 } else { 800 }), |s, ctx| check_number(ctx, s, true)));
    {
        // state carried inside one deserializer: numbers behind escaped strings / keys
        let mut lits = boundary_int_literals();
        lits.extend(exponent_literals());
        lits.extend(power_literals().into_iter().step_by(if q { 40 } else { 5 }));
        let k = gen::N10.len() as u64;
        let l = if q { 3 } else { 5 };
        let mut seq = vec![];
        let mut d = vec![];
        for idx in 0..gen::seq_count(k, l) {
            gen::nth_seq(k, l, idx, &mut seq);
            gen::concat(gen::N10, &seq, &mut d);
            let s = String::from_utf8(d.clone()).unwrap();
            if refjson::number_shape(s.as_bytes()).is_some() {
                lits.push(s);
            }
        }
        lits.sort();
        lits.dedup();
        v.push(Family::of_vec("numbers-behind-escaped-strings", lits, |s, ctx| check_number_in_context(ctx, s)));
    }
    v.push(Family::of_vec("powers-of-ten", power_literals(), |s, ctx| check_number(ctx, s, false)));
    v.push(Family::of_vec("integer-boundaries", boundary_int_literals(), |s, ctx| check_number(ctx, s, true)));
    // the same literals through RawNumber (accessors must not wrap either)
    v.push(Family::of_vec("integer-boundaries/RawNumber", boundary_int_literals(), |s, ctx| crate::props::c08::check_raw(ctx, s)));
    v.push(Family::of_vec("exponents", exponent_literals(), |s, ctx| check_number(ctx, s, true)));
    {
        let pats = halfway_bit_patterns(q);
        v.push(Family::of_vec("halfway", pats, |bits, ctx| {
            for lit in halfway_literals(*bits) {
                check_number(ctx, &lit, false);
                // the same digits with an explicit exponent and negative
                if lit.len() < 60 {
                    check_number(ctx, &format!("-{lit}e0"), false);
                }
            }
        }));
    }
    // every distinct number literal of the corpus documents (canada.json: 111k coordinates)
    {
        let mut lits: Vec<String> = vec![];
        for (_, d) in gen::corpus() {
            for t in gen::corpus_tokens(&d, false) {
                if let Ok(s) = String::from_utf8(t) {
                    lits.push(s);
                }
            }
        }
        lits.sort();
        lits.dedup();
        if q {
            lits = lits.into_iter().enumerate().filter(|(i, _)| i % 4 == 0).map(|(_, s)| s).collect();
        }
        v.push(Family::of_vec("corpus-number-literals", lits, |s, ctx| check_number(ctx, s, false)));
    }
    // long digit runs at every alignment of the 16-digit fraction reader: the literal inside an array
    // with 0..32 leading spaces is covered by C03; here every split of int/frac digits
    {
        let mut lits = vec![];
        for int_digits in 1..=20usize {
            for frac_digits in 0..=40usize {
                let a: String = (0..int_digits).map(|i| char::from(b'1' + (i % 9) as u8)).collect();
                let b: String = (0..frac_digits).map(|i| char::from(b'9' - (i % 9) as u8)).collect();
                if frac_digits == 0 {
                    lits.push(a.clone());
                } else {
                    lits.push(format!("{a}.{b}"));
                    lits.push(format!("{a}.{b}e-7"));
                    lits.push(format!("0.{b}"));
                }
            }
        }
        v.push(Family::of_vec("int-frac-splits", lits, |s, ctx| check_number(ctx, s, false)));
    }
    v
}

pub fn show_unused() {
    let _ = show;
}
