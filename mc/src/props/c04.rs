//! C04 - typed deserialization agrees with serde_json on result and on accept/reject.

use serde_json::json;

use crate::{
    engine::{show, guard, Ctx, Family, Tier},
    gen,
    types::Fam,
};

/// T20 = T16 + "A", "1", 300, 1e2
pub const T20: &[&[u8]] = &[
    b"[", b"]", b"{", b"}", b",", b":", b"\"a\"", b"\"\\n\"", b"1", b"-1.5e1", b"true", b"false", b"null", b" ", b"\n", b"x", b"\"A\"", b"\"1\"", b"300",
    b"1e2",
];

fn first_line(e: &impl std::fmt::Display) -> String {
    e.to_string().lines().next().unwrap_or("").to_string()
}

/// documented differences: returns true when the disagreement is one of them
fn documented_difference<T: Fam>(text: &str, sonic_ok: bool) -> Option<&'static str> {
    // nesting limits differ (serde_json 128, sonic 254 typed / 512 DOM)
    let depth = text.bytes().filter(|b| *b == b'[' || *b == b'{').count();
    if depth >= 100 {
        return Some("nesting-limit");
    }
    // f32 is the f64 result narrowed once: a finite f64 beyond the f32 range becomes +-inf where
    // serde_json reports "number out of range" (documented f32 difference)
    if sonic_ok && T::NAME.contains("f32") {
        if let Ok(f) = text.trim().parse::<f64>() {
            if f.is_finite() && (f as f32).is_infinite() {
                return Some("f32-narrowed-from-f64");
            }
        }
    }
    None
}

pub fn check_typed<T: Fam>(ctx: &mut Ctx, text: &str) {
    let theirs = serde_json::from_str::<T>(text);
    for (ep, slice) in [("from_str", false), ("from_slice", true)] {
        let mine = guard(|| if slice { sonic_rs::from_slice::<T>(text.as_bytes()) } else { sonic_rs::from_str::<T>(text) });
        ctx.state();
        ctx.call();
        let name = format!("{}<{}>", ep, T::NAME);
        match (mine, &theirs) {
            (Err(p), _) => ctx.violation(&format!("panic/{name}"), json!({"entry": name, "text": text, "panic": p})),
            (Ok(Ok(a)), Ok(b)) => {
                if &a == b {
                    ctx.outcome("both-ok:equal");
                } else if T::NAME == "f32" || T::NAME.contains("f64") || T::NAME == "f64" {
                    // floats: compare by bits through Debug (NaN never arises from JSON)
                    if format!("{:?}", a) == format!("{:?}", b) {
                        ctx.outcome("both-ok:equal");
                    } else {
                        ctx.outcome("VIOL:different-value");
                        ctx.violation(&format!("different-value/{name}"), json!({"entry": name, "text": text, "sonic": format!("{:?}", a), "serde_json": format!("{:?}", b)}));
                    }
                } else {
                    ctx.outcome("VIOL:different-value");
                    ctx.violation(&format!("different-value/{name}"), json!({"entry": name, "text": text, "sonic": format!("{:?}", a), "serde_json": format!("{:?}", b)}));
                }
            }
            (Ok(Err(_)), Err(_)) => ctx.outcome("both-reject"),
            (Ok(Ok(a)), Err(e)) => {
                if let Some(d) = documented_difference::<T>(text, true) {
                    ctx.outcome(&format!("documented-difference:{d}"));
                } else {
                    ctx.outcome("VIOL:sonic-accepts");
                    ctx.violation(
                        &format!("accepts-where-serde_json-rejects/{name}"),
                        json!({"entry": name, "text": text, "sonic": format!("{:?}", a), "serde_json_error": first_line(e)}),
                    );
                }
            }
            (Ok(Err(e)), Ok(b)) => {
                if let Some(d) = documented_difference::<T>(text, false) {
                    ctx.outcome(&format!("documented-difference:{d}"));
                } else {
                    ctx.outcome("VIOL:sonic-rejects");
                    ctx.violation(
                        &format!("rejects-where-serde_json-accepts/{name}"),
                        json!({"entry": name, "text": text, "sonic_error": first_line(&e), "serde_json": format!("{:?}", b)}),
                    );
                }
            }
        }
    }
    ctx.tr(|t| t.str(text));
}

/// byte-buffer targets take their JSON string as raw bytes: the input need not be UTF-8
pub fn check_typed_bytes<T: serde::de::DeserializeOwned + PartialEq + std::fmt::Debug>(ctx: &mut Ctx, tname: &str, text: &[u8]) {
    let theirs = serde_json::from_slice::<T>(text);
    let mine = guard(|| sonic_rs::from_slice::<T>(text));
    ctx.state();
    ctx.call();
    let name = format!("from_slice<{tname}>");
    match (mine, &theirs) {
        (Err(p), _) => ctx.violation(&format!("panic/{name}"), json!({"entry": name, "text": show(text), "panic": p})),
        (Ok(Ok(a)), Ok(b)) => {
            if &a == b {
                ctx.outcome("both-ok:equal");
            } else {
                ctx.outcome("VIOL:different-value");
                ctx.violation(&format!("different-value/{name}"), json!({"entry": name, "text": show(text), "sonic": format!("{:?}", a), "serde_json": format!("{:?}", b)}));
            }
        }
        (Ok(Err(_)), Err(_)) => ctx.outcome("both-reject"),
        (Ok(Ok(a)), Err(e)) => {
            ctx.outcome("VIOL:sonic-accepts");
            ctx.violation(&format!("accepts-where-serde_json-rejects/{name}"), json!({"entry": name, "text": show(text), "sonic": format!("{:?}", a), "serde_json_error": first_line(e)}));
        }
        (Ok(Err(e)), Ok(b)) => {
            // serde_json does not validate the string it reads a byte buffer from (raw control
            // characters, lone surrogate escapes); sonic-rs applies the JSON grammar there too,
            // as C02 demands: not a disagreement about a well-formed text
            if crate::refjson::parse_doc(text, crate::refjson::Mode::Lossy).is_err() {
                ctx.outcome("documented-difference:serde_json-accepts-malformed-string-for-bytes");
            } else {
                ctx.outcome("VIOL:sonic-rejects");
                ctx.violation(&format!("rejects-where-serde_json-accepts/{name}"), json!({"entry": name, "text": show(text), "sonic_error": first_line(&e), "serde_json": format!("{:?}", b)}));
            }
        }
    }
}

#[derive(serde::Deserialize, PartialEq, Debug)]
pub struct BufAndText {
    pub b: serde_bytes::ByteBuf,
    pub c: String,
}

/// borrowed targets need the input lifetime
pub fn check_borrowed(ctx: &mut Ctx, text: &str) {
    #[derive(serde::Deserialize, PartialEq, Debug)]
    struct B<'a> {
        #[serde(borrow)]
        s: std::borrow::Cow<'a, str>,
        r: Option<&'a str>,
        #[serde(borrow)]
        b: Option<&'a [u8]>,
    }
    macro_rules! one {
        ($t:ty, $name:expr) => {{
            let theirs = serde_json::from_str::<$t>(text);
            let mine = guard(|| sonic_rs::from_str::<$t>(text));
            ctx.state();
            ctx.call();
            match (mine, theirs) {
                (Err(p), _) => ctx.violation(concat!("panic/from_str<", $name, ">"), json!({"text": text, "panic": p})),
                (Ok(Ok(a)), Ok(b)) => {
                    if a == b {
                        ctx.outcome("both-ok:equal")
                    } else {
                        ctx.violation(concat!("different-value/from_str<", $name, ">"), json!({"text": text, "sonic": format!("{:?}", a), "serde_json": format!("{:?}", b)}))
                    }
                }
                (Ok(Err(_)), Err(_)) => ctx.outcome("both-reject"),
                (Ok(Ok(a)), Err(e)) => ctx.violation(concat!("accepts-where-serde_json-rejects/from_str<", $name, ">"), json!({"text": text, "sonic": format!("{:?}", a), "serde_json_error": first_line(&e)})),
                (Ok(Err(e)), Ok(b)) => ctx.violation(concat!("rejects-where-serde_json-accepts/from_str<", $name, ">"), json!({"text": text, "sonic_error": first_line(&e), "serde_json": format!("{:?}", b)})),
            }
        }};
    }
    one!(&str, "&str");
    one!(B, "struct{Cow,&str,&[u8]}");
    one!(std::borrow::Cow<str>, "Cow<str>");
}

pub fn check_all_types(ctx: &mut Ctx, text: &str) {
    macro_rules! m {
        ($t:ty) => {
            check_typed::<$t>(ctx, text);
        };
    }
    crate::for_each_fam!(m);
    check_borrowed(ctx, text);
    if serde_json::from_str::<serde_json::Value>(text).is_ok() {
        ctx.nontrivial();
    }
    ctx.sample(|| json!({"text": text}));
}

/// split a JSON text into tokens (whitespace dropped)
pub fn tokenize(s: &str) -> Vec<String> {
    let b = s.as_bytes();
    let mut out = vec![];
    let mut i = 0;
    while i < b.len() {
        match b[i] {
            b' ' | b'\n' | b'\t' | b'\r' => i += 1,
            b'[' | b']' | b'{' | b'}' | b',' | b':' => {
                out.push((b[i] as char).to_string());
                i += 1;
            }
            b'"' => {
                let st = i;
                i += 1;
                while i < b.len() && b[i] != b'"' {
                    if b[i] == b'\\' {
                        i += 1;
                    }
                    i += 1;
                }
                i = (i + 1).min(b.len());
                out.push(s[st..i].to_string());
            }
            _ => {
                let st = i;
                while i < b.len() && !matches!(b[i], b' ' | b'\n' | b'\t' | b'\r' | b'[' | b']' | b'{' | b'}' | b',' | b':' | b'"') {
                    i += 1;
                }
                out.push(s[st..i].to_string());
            }
        }
    }
    out
}

pub const REPLACEMENTS: &[&str] = &[
    "null", "true", "0", "-0", "-1", "1.0", "1e0", "255", "256", "-129", "65536", "4294967296", "9223372036854775808", "-9223372036854775809",
    "18446744073709551616", "340282366920938463463374607431768211456", "1e400", "0.5", "\"\"", "\"a\"", "\"A\"", "\"1\"", "\"-1\"", "\"true\"", "\"\\u0041\"",
    "\"ab\"", "[]", "{}", "[1]", "{\"a\":1}", "\"t\"", "\"x\"", "\"k\"", "\"B\"", "\"New\"",
];

/// type-directed texts: the serde_json serialization of every universe value and every
/// single-token deletion / duplication / substitution of it
pub fn directed_texts<T: Fam>(subst: bool) -> Vec<String> {
    let mut out = vec![];
    for v in T::universe() {
        let Ok(text) = serde_json::to_string(&v) else { continue };
        out.push(text.clone());
        out.push(serde_json::to_string_pretty(&v).unwrap());
        let toks = tokenize(&text);
        if toks.len() > 60 {
            continue;
        }
        for i in 0..toks.len() {
            let mut d = toks.clone();
            d.remove(i);
            out.push(d.concat());
            let mut d = toks.clone();
            d.insert(i, toks[i].clone());
            out.push(d.concat());
            if subst {
                for r in REPLACEMENTS {
                    if *r == toks[i] {
                        continue;
                    }
                    let mut d = toks.clone();
                    d[i] = r.to_string();
                    out.push(d.concat());
                }
            }
            // an extra member / element after this token
            if toks[i] == "{" {
                let mut d = toks.clone();
                d.insert(i + 1, "\"extra\":null,".to_string());
                out.push(d.concat());
                let mut d = toks.clone();
                d.insert(i + 1, "\"a\":1,\"a\":2,".to_string());
                out.push(d.concat());
            }
            if toks[i] == "}" && i > 0 && toks[i - 1] != "{" {
                let mut d = toks.clone();
                d.insert(i, ",\"extra\":[{}]".to_string());
                out.push(d.concat());
                // duplicate of the first member at the end
                if let Some(p) = toks.iter().position(|t| t == "{") {
                    if p + 3 < toks.len() && toks[p + 2] == ":" && !matches!(toks[p + 3].as_str(), "[" | "{") {
                        let mut d = toks.clone();
                        d.insert(i, format!(",{}:{}", toks[p + 1], toks[p + 3]));
                        out.push(d.concat());
                    }
                }
            }
        }
    }
    out.sort();
    out.dedup();
    out
}

pub fn families(tier: Tier, _variant: &str) -> Vec<Family> {
    let q = tier == Tier::Quick;
    let mut v = vec![];
    {
        let k = T20.len() as u64;
        let l = if q { 3 } else { 5 };
        v.push(Family::new("t20-full x all types", gen::seq_count(k, l), move |idx, ctx| {
            let mut seq = vec![];
            gen::nth_seq(k, l, idx, &mut seq);
            let mut d = vec![];
            gen::concat(T20, &seq, &mut d);
            let s = String::from_utf8(d).unwrap();
            check_all_types(ctx, &s);
        }));
    }
    // type-directed: each type against its own texts, and against the texts of every other type
    macro_rules! directed {
        ($t:ty) => {{
            let texts = directed_texts::<$t>(true);
            v.push(Family::of_vec(&format!("directed/{}", <$t as Fam>::NAME), texts, |s, ctx| {
                check_typed::<$t>(ctx, s);
                if serde_json::from_str::<$t>(s).is_ok() {
                    ctx.nontrivial();
                }
                ctx.sample(|| json!({"type": <$t as Fam>::NAME, "text": s}));
            }));
        }};
    }
    crate::for_each_fam!(directed);
    {
        // cross product: the unmutated texts of all types x all types
        let mut all: Vec<String> = vec![];
        macro_rules! collect {
            ($t:ty) => {
                all.extend(directed_texts::<$t>(false).into_iter().filter(|s| s.len() < 200));
            };
        }
        crate::for_each_fam!(collect);
        all.sort();
        all.dedup();
        if q {
            all = all.into_iter().enumerate().filter(|(i, _)| i % 4 == 0).map(|(_, s)| s).collect();
        }
        v.push(Family::of_vec("cross/all-texts x all-types", all, |s, ctx| check_all_types(ctx, s)));
    }
    // string bodies: escape head + plain run of every length + every B11 tail, into the string types
    // (owned, borrowed, map key, element), bare and followed by more input
    {
        let (heads, max_run, tl) = if q { (2usize, 70u64, 3u32) } else { (3, 140, 3) };
        v.push(Family::new("string-head-run-tail x string types", gen::head_run_tail_count(heads, max_run, tl), move |idx, ctx| {
            let body = gen::head_run_tail_body(heads, max_run, tl, idx);
            let Ok(b) = String::from_utf8(body) else {
                ctx.outcome("skipped:not-utf8-text");
                return;
            };
            let lit = format!("\"{b}\"");
            check_typed::<String>(ctx, &lit);
            check_typed::<String>(ctx, &format!("{lit}{}", " ".repeat(40)));
            check_typed::<Vec<Option<String>>>(ctx, &format!("[{lit},null,\"{}\"]", "p".repeat(40)));
            check_typed::<std::collections::BTreeMap<String, i32>>(ctx, &format!("{{{lit}:1,\"{}\":2}}", "p".repeat(40)));
            check_borrowed(ctx, &format!("{lit}{}", " ".repeat(40)));
            if serde_json::from_str::<String>(&lit).is_ok() {
                ctx.nontrivial();
            }
        }));
    }
    // every ASCII byte inserted / substituted at every position of short documents, into the types
    // those documents fit (what separates tokens is decided per byte value)
    {
        let seeds: [&'static str; 3] = ["[1,-2,30]", "{\"a\":7,\"b\":\"s\",\"c\":true}", " [ 255 , \"x\\ty\" ] "];
        for (si, seed) in seeds.iter().enumerate() {
            let seed = seed.as_bytes();
            v.push(Family::new(&format!("ascii-neighbourhood/seed{si}"), gen::byte_neighbourhood_count(seed), move |idx, ctx| {
                let d = gen::byte_neighbourhood(seed, idx);
                let Ok(s) = std::str::from_utf8(&d) else {
                    ctx.outcome("skipped:not-utf8-text");
                    return;
                };
                match si {
                    0 => {
                        check_typed::<Vec<i32>>(ctx, s);
                        check_typed::<[i16; 3]>(ctx, s);
                        check_typed::<Vec<f64>>(ctx, s);
                    }
                    1 => {
                        check_typed::<crate::types::Plain>(ctx, s);
                        check_typed::<serde_json::Value>(ctx, s);
                    }
                    _ => {
                        check_typed::<(u8, String)>(ctx, s);
                        check_typed::<crate::types::TupleStruct>(ctx, s);
                    }
                }
                ctx.nontrivial();
            }));
        }
    }
    // byte-buffer targets: every short B11 body (escapes, raw non-UTF-8 bytes, control bytes) as the
    // JSON string a byte buffer is read from, alone, followed by another string (state carried to
    // the next string of the document) and twice in a row
    {
        let k = gen::B11.len() as u64;
        let l = if q { 4 } else { 5 };
        v.push(Family::new("byte-buffer-targets/b11", gen::seq_count(k, l), move |idx, ctx| {
            let mut seq = vec![];
            gen::nth_seq(k, l, idx, &mut seq);
            let mut body = vec![];
            gen::concat(gen::B11, &seq, &mut body);
            let cat = |parts: &[&[u8]]| parts.concat();
            check_typed_bytes::<crate::types::Bytes1>(ctx, "struct{serde_bytes}", &cat(&[b"{\"b\":\"", &body, b"\"}"]));
            check_typed_bytes::<(serde_bytes::ByteBuf, String)>(ctx, "(ByteBuf,String)", &cat(&[b"[\"", &body, b"\",\"ok\\n\"]"]));
            check_typed_bytes::<Vec<serde_bytes::ByteBuf>>(ctx, "Vec<ByteBuf>", &cat(&[b"[\"", &body, b"\",\"", &body, b"\"]"]));
            check_typed_bytes::<BufAndText>(ctx, "struct{b:ByteBuf,c:String}", &cat(&[b"{\"b\":\"", &body, b"\",\"c\":\"t\\tt\"}"]));
            check_typed_bytes::<(String, serde_bytes::ByteBuf, String)>(ctx, "(String,ByteBuf,String)", &cat(&[b"[\"a\\tb\",\"", &body, b"\",\"z\"]"]));
            check_typed_bytes::<(serde_bytes::ByteBuf, String, serde_bytes::ByteBuf)>(ctx, "(ByteBuf,String,ByteBuf)", &cat(&[b"[\"", &body, b"\",\"plain\",\"", &body, b"\"]"]));
            ctx.nontrivial();
        }));
    }
    // every short N10 string in positions whose value is ignored (unknown field, IgnoredAny)
    {
        let k = gen::N10.len() as u64;
        let l = if q { 5 } else { 6 };
        v.push(Family::new("n10-in-ignored-positions", gen::seq_count(k, l), move |idx, ctx| {
            let mut seq = vec![];
            gen::nth_seq(k, l, idx, &mut seq);
            let mut d = vec![];
            gen::concat(gen::N10, &seq, &mut d);
            let lit = String::from_utf8(d).unwrap();
            check_typed::<crate::types::Plain>(ctx, &format!("{{\"a\":7,\"zz\":{lit},\"b\":\"s\"}}"));
            check_typed::<crate::types::Plain>(ctx, &format!("{{\"a\":7,\"b\":\"s\",\"zz\":[{lit},{{\"k\":{lit}}}]}}"));
            check_typed::<crate::types::UnitStruct>(ctx, &format!("[{lit}]"));
        }));
    }
    // numbers: the N10 space into every numeric type is C07; here quoted numbers as map keys
    {
        let k = gen::N10.len() as u64;
        let l = if q { 4 } else { 5 };
        v.push(Family::new("map-keys/n10", gen::seq_count(k, l), move |idx, ctx| {
            let mut seq = vec![];
            gen::nth_seq(k, l, idx, &mut seq);
            let mut d = vec![];
            gen::concat(gen::N10, &seq, &mut d);
            let key = String::from_utf8(d).unwrap();
            let text = format!("{{\"{}\":1}}", key);
            check_typed::<std::collections::BTreeMap<i32, bool>>(ctx, &text.replace(":1", ":true"));
            check_typed::<std::collections::BTreeMap<u64, u8>>(ctx, &text);
            check_typed::<std::collections::BTreeMap<i128, u8>>(ctx, &text);
            check_typed::<std::collections::BTreeMap<String, i32>>(ctx, &text);
        }));
    }
    v
}
