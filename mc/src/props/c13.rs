//! C13 - lazy values are faithful views of their source text.
//!  part A: accessor agreement for every value type x every way of obtaining a lazy value
//!  part B: every history (to a depth) over the owned-lazy mutation alphabet vs. a plain model

use serde::Deserialize;
use serde_json::json;
use sonic_rs::{
    FastStr, JsonContainerTrait, JsonNumberTrait, JsonType, JsonValueMutTrait, JsonValueTrait, LazyValue,
    OwnedLazyValue, Value,
};

use crate::{
    engine::{guard, show, Ctx, Family, Tier},
    gen::{self, DocGen},
    refjson::{self, Kind, Mode as RMode, Node, Num},
};

#[derive(Deserialize)]
struct FieldLazy<'a> {
    #[serde(borrow)]
    v: LazyValue<'a>,
}
#[derive(Deserialize)]
struct FieldOwned {
    v: OwnedLazyValue,
}

fn type_of(n: &Node) -> JsonType {
    match n.kind {
        Kind::Null => JsonType::Null,
        Kind::Bool(_) => JsonType::Boolean,
        Kind::Num(_) => JsonType::Number,
        Kind::Str { .. } => JsonType::String,
        Kind::Arr(_) => JsonType::Array,
        Kind::Obj(_) => JsonType::Object,
    }
}

/// accessor agreement for anything implementing JsonValueTrait, against the reference node of
/// the value's own text `src` (node spans are relative to `src`)
fn check_accessors<V: JsonValueTrait>(v: &V, n: &Node, src: &[u8]) -> Result<(), String> {
    let t = type_of(n);
    if v.get_type() != t {
        return Err(format!("get_type {:?} expected {:?}", v.get_type(), t));
    }
    let flags = [
        (v.is_null(), t == JsonType::Null, "is_null"),
        (v.is_boolean(), t == JsonType::Boolean, "is_boolean"),
        (v.is_number(), t == JsonType::Number, "is_number"),
        (v.is_str(), t == JsonType::String, "is_str"),
        (v.is_array(), t == JsonType::Array, "is_array"),
        (v.is_object(), t == JsonType::Object, "is_object"),
    ];
    for (got, want, name) in flags {
        if got != want {
            return Err(format!("{name}() = {got}, expected {want}"));
        }
    }
    match &n.kind {
        Kind::Bool(b) => {
            if v.as_bool() != Some(*b) || v.is_true() != *b || v.is_false() == *b {
                return Err(format!("as_bool {:?} expected {}", v.as_bool(), b));
            }
        }
        _ => {
            // (is_false() is defined as !is_true() for every implementation: true for non-booleans)
            if v.as_bool().is_some() || v.is_true() {
                return Err("as_bool is Some on a non-boolean".into());
            }
        }
    }
    match &n.kind {
        Kind::Str { val, .. } => {
            if v.as_str() != Some(val.as_str()) {
                return Err(format!("as_str {:?} expected {:?}", v.as_str(), val));
            }
            // ask again: cached answer
            if v.as_str() != Some(val.as_str()) {
                return Err("as_str differs on second call".into());
            }
        }
        _ => {
            if v.as_str().is_some() {
                return Err("as_str is Some on a non-string".into());
            }
        }
    }
    match &n.kind {
        Kind::Num(want) => {
            let lit = std::str::from_utf8(n.text(src)).unwrap();
            let num = v.as_number().ok_or_else(|| format!("as_number None for {lit}"))?;
            let ok = match (want, lit) {
                (_, "-0") => num.as_f64().map(|f| f.to_bits()) == Some((-0.0f64).to_bits()) || num.as_i64() == Some(0),
                (Num::U(u), _) => num.as_u64() == Some(*u) && v.as_u64() == Some(*u) && v.is_u64(),
                (Num::I(i), _) => num.as_i64() == Some(*i) && v.as_i64() == Some(*i) && v.is_i64() && !v.is_u64(),
                (Num::F(f), _) => num.is_f64() && num.as_f64().map(|x| x.to_bits()) == Some(f.to_bits()) && v.as_f64().map(|x| x.to_bits()) == Some(f.to_bits()) && v.is_f64(),
            };
            if !ok {
                return Err(format!("number {lit}: as_number {:?}, expected {:?}", num, want));
            }
            match v.as_raw_number() {
                Some(r) if r.as_str() == lit => {}
                other => return Err(format!("as_raw_number {:?} expected {lit}", other.map(|r| r.as_str().to_string()))),
            }
        }
        _ => {
            if v.as_number().is_some() || v.as_u64().is_some() || v.as_i64().is_some() || v.as_f64().is_some() {
                return Err("numeric accessor is Some on a non-number".into());
            }
            if v.as_raw_number().is_some() {
                return Err("as_raw_number is Some on a non-number".into());
            }
        }
    }
    // wrong-kind lookups
    match &n.kind {
        Kind::Arr(_) => {
            if v.get("a").is_some() {
                return Err("get(key) on an array is Some".into());
            }
        }
        Kind::Obj(_) => {
            if v.get(0usize).is_some() {
                return Err("get(index) on an object is Some".into());
            }
        }
        _ => {
            if v.get(0usize).is_some() || v.get("a").is_some() {
                return Err("get on a scalar is Some".into());
            }
        }
    }
    Ok(())
}

fn check_lazy(lv: &LazyValue, n: &Node, src: &[u8], depth: usize) -> Result<(), String> {
    let raw = n.text(src);
    if lv.as_raw_str().as_bytes() != raw {
        return Err(format!("as_raw_str {:?} expected {:?}", lv.as_raw_str(), String::from_utf8_lossy(raw)));
    }
    if lv.as_raw_cow().as_bytes() != raw || lv.as_raw_faststr().as_bytes() != raw {
        return Err("as_raw_cow / as_raw_faststr differ from the raw text".into());
    }
    let own = refjson::parse_doc(raw, RMode::Decode).map_err(|r| format!("raw text not well-formed: {:?}", r.reason))?;
    check_accessors(lv, &own, raw)?;
    let s = sonic_rs::to_string(lv).map_err(|e| e.to_string())?;
    if s.as_bytes() != raw {
        return Err(format!("to_string {:?} is not the raw text", s));
    }
    if format!("{}", lv).as_bytes() != raw {
        return Err("Display is not the raw text".into());
    }
    let pretty_in_arr = sonic_rs::to_string(&vec![lv.clone(), lv.clone()]).map_err(|e| e.to_string())?;
    let expect = format!("[{},{}]", String::from_utf8_lossy(raw), String::from_utf8_lossy(raw));
    if pretty_in_arr != expect {
        return Err(format!("serialized inside a Vec: {:?}", pretty_in_arr));
    }
    // Value::try_from
    let is_finite = !has_nonfinite(&own);
    match Value::try_from(lv.clone()) {
        Ok(v) => {
            if !is_finite {
                return Err("Value::try_from accepted a non-finite number".into());
            }
            crate::walk::cmp_value(&v, &own, raw, cfg!(feature = "arbitrary_precision")).map_err(|e| format!("Value::try_from: {e}"))?
        }
        Err(e) => {
            if is_finite {
                return Err(format!("Value::try_from failed: {e}"));
            }
        }
    }
    // children
    if depth > 0 {
        match &own.kind {
            Kind::Arr(items) => {
                for (i, c) in items.iter().enumerate() {
                    let sub = lv.get(i).ok_or_else(|| format!("get({i}) None"))?;
                    check_lazy(&sub, c, raw, depth - 1).map_err(|e| format!("[{i}]: {e}"))?;
                }
                if lv.get(items.len()).is_some() {
                    return Err("get(len) Some".into());
                }
                // iterator over the lazy array
                let it = lv.clone().into_array_iter().ok_or("into_array_iter None")?;
                let got: Vec<String> = it.map(|r| r.map(|x| x.as_raw_str().to_string()).unwrap_or_else(|e| format!("ERR {e}"))).collect();
                let want: Vec<String> = items.iter().map(|c| String::from_utf8_lossy(c.text(raw)).to_string()).collect();
                if got != want {
                    return Err(format!("into_array_iter {:?} expected {:?}", got, want));
                }
                if lv.clone().into_object_iter().is_some() {
                    return Err("into_object_iter Some on an array".into());
                }
            }
            Kind::Obj(members) => {
                for (k, c) in members.iter() {
                    let first = members.iter().find(|(k2, _)| k2.key_str() == k.key_str()).unwrap();
                    let sub = lv.get(k.key_str()).ok_or_else(|| format!("get({:?}) None", k.key_str()))?;
                    check_lazy(&sub, &first.1, raw, depth - 1).map_err(|e| format!(".{}: {e}", k.key_str()))?;
                    let _ = c;
                }
                let it = lv.clone().into_object_iter().ok_or("into_object_iter None")?;
                let got: Vec<(String, String)> =
                    it.map(|r| r.map(|(k, x)| (k.to_string(), x.as_raw_str().to_string())).unwrap_or_else(|e| ("ERR".into(), e.to_string()))).collect();
                let want: Vec<(String, String)> =
                    members.iter().map(|(k, c)| (k.key_str().to_string(), String::from_utf8_lossy(c.text(raw)).to_string())).collect();
                if got != want {
                    return Err(format!("into_object_iter {:?} expected {:?}", got, want));
                }
            }
            _ => {
                if lv.clone().into_array_iter().is_some() || lv.clone().into_object_iter().is_some() {
                    return Err("into_*_iter Some on a scalar".into());
                }
            }
        }
    }
    Ok(())
}

fn has_nonfinite(n: &Node) -> bool {
    match &n.kind {
        Kind::Num(Num::F(f)) => !f.is_finite(),
        Kind::Arr(a) => a.iter().any(has_nonfinite),
        Kind::Obj(o) => o.iter().any(|(_, v)| has_nonfinite(v)),
        _ => false,
    }
}

/// semantic dump of whatever an owned lazy value serializes to
fn olv_dump(o: &OwnedLazyValue) -> Result<String, String> {
    let s = sonic_rs::to_string(o).map_err(|e| e.to_string())?;
    let n = refjson::parse_doc(s.as_bytes(), RMode::Grammar).map_err(|r| format!("serialized {:?} not well-formed: {:?}", s, r.reason))?;
    Ok(n.dumps())
}

fn check_owned(o: &OwnedLazyValue, n: &Node, src: &[u8], untouched: bool, depth: usize) -> Result<(), String> {
    let raw = n.text(src);
    let own = refjson::parse_doc(raw, RMode::Decode).map_err(|r| format!("raw text not well-formed: {:?}", r.reason))?;
    check_accessors(o, &own, raw)?;
    let s = sonic_rs::to_string(o).map_err(|e| e.to_string())?;
    if untouched {
        if s.as_bytes() != raw {
            return Err(format!("to_string {:?} is not the raw text {:?}", s, String::from_utf8_lossy(raw)));
        }
    } else {
        let sn = refjson::parse_doc(s.as_bytes(), RMode::Decode).map_err(|r| format!("to_string {:?} not well-formed: {:?}", s, r.reason))?;
        if sn.dumps() != own.dumps() {
            return Err(format!("to_string {:?} denotes something else than {:?}", s, String::from_utf8_lossy(raw)));
        }
    }
    match &own.kind {
        Kind::Arr(items) => {
            let a = o.as_array().ok_or("as_array None")?;
            if a.len() != items.len() {
                return Err(format!("as_array().len() {} expected {}", a.len(), items.len()));
            }
            if o.as_object().is_some() {
                return Err("as_object Some on an array".into());
            }
            if depth > 0 {
                for (i, c) in items.iter().enumerate() {
                    let sub = o.get(i).ok_or_else(|| format!("get({i}) None"))?;
                    // children obtained by lookup keep their exact source text
                    check_owned(sub, c, raw, true, depth - 1).map_err(|e| format!("[{i}]: {e}"))?;
                    check_owned(&a[i], c, raw, true, depth - 1).map_err(|e| format!("as_array()[{i}]: {e}"))?;
                }
            }
            if o.get(items.len()).is_some() {
                return Err("get(len) Some".into());
            }
        }
        Kind::Obj(members) => {
            let a = o.as_object().ok_or("as_object None")?;
            if a.len() != members.len() {
                return Err(format!("as_object().len() {} expected {}", a.len(), members.len()));
            }
            if o.as_array().is_some() {
                return Err("as_array Some on an object".into());
            }
            if depth > 0 {
                for (i, (k, c)) in members.iter().enumerate() {
                    if a[i].0.as_str() != k.key_str() {
                        return Err(format!("member {i} key {:?} expected {:?}", a[i].0, k.key_str()));
                    }
                    check_owned(&a[i].1, c, raw, true, depth - 1).map_err(|e| format!(".{}: {e}", k.key_str()))?;
                    let first = members.iter().find(|(k2, _)| k2.key_str() == k.key_str()).unwrap();
                    let sub = o.get(k.key_str()).ok_or_else(|| format!("get({:?}) None", k.key_str()))?;
                    check_owned(sub, &first.1, raw, true, depth - 1).map_err(|e| format!("get({:?}): {e}", k.key_str()))?;
                }
            }
        }
        _ => {
            if o.as_array().is_some() || o.as_object().is_some() {
                return Err("as_array/as_object Some on a scalar".into());
            }
        }
    }
    // a clone behaves the same and is independent
    let c = o.clone();
    let cs = sonic_rs::to_string(&c).map_err(|e| e.to_string())?;
    if cs != sonic_rs::to_string(o).map_err(|e| e.to_string())? {
        return Err(format!("clone serializes as {:?}", cs));
    }
    Ok(())
}

pub fn check_views(ctx: &mut Ctx, doc: &[u8]) {
    let Ok(root) = refjson::parse_doc(doc, RMode::Decode) else {
        return;
    };
    ctx.nontrivial();
    let mut run = |ctx: &mut Ctx, name: &str, f: &mut dyn FnMut() -> Result<(), String>| {
        let r = guard(|| f());
        ctx.state();
        ctx.call();
        match r {
            Ok(Ok(())) => ctx.outcome("faithful"),
            Ok(Err(m)) => {
                ctx.outcome("VIOL");
                ctx.violation(&format!("unfaithful/{name}"), json!({"source": name, "doc": show(doc), "mismatch": m}))
            }
            Err(p) => ctx.violation(&format!("panic/{name}"), json!({"source": name, "doc": show(doc), "panic": p})),
        }
    };
    // LazyValue sources
    run(ctx, "LazyValue via get(root)", &mut || {
        let lv = sonic_rs::get(doc, sonic_rs::pointer![].iter()).map_err(|e| e.to_string())?;
        check_lazy(&lv, &root, doc, 2)
    });
    run(ctx, "LazyValue via from_slice", &mut || {
        let lv: LazyValue = sonic_rs::from_slice(doc).map_err(|e| e.to_string())?;
        check_lazy(&lv, &root, doc, 2)
    });
    run(ctx, "LazyValue via FastStr get", &mut || {
        let f = FastStr::new(std::str::from_utf8(doc).unwrap());
        let lv = sonic_rs::get(&f, sonic_rs::pointer![].iter()).map_err(|e| e.to_string())?;
        check_lazy(&lv, &root, doc, 2)
    });
    // as a struct field / array element / iterator item
    let mut wrapped = b"{\"v\": ".to_vec();
    wrapped.extend_from_slice(doc);
    wrapped.extend_from_slice(b" }");
    let wroot = refjson::parse_doc(&wrapped, RMode::Decode).unwrap();
    let Kind::Obj(wm) = &wroot.kind else { unreachable!() };
    let vn = wm[0].1.clone();
    run(ctx, "LazyValue struct field (borrowed)", &mut || {
        let x: FieldLazy = sonic_rs::from_slice(&wrapped).map_err(|e| e.to_string())?;
        check_lazy(&x.v, &vn, &wrapped, 2)
    });
    run(ctx, "LazyValue via get(child)", &mut || {
        let lv = sonic_rs::get(&wrapped[..], &["v"]).map_err(|e| e.to_string())?;
        check_lazy(&lv, &vn, &wrapped, 2)
    });
    run(ctx, "LazyValue via object iterator", &mut || {
        let (k, lv) = sonic_rs::to_object_iter(&wrapped[..]).next().ok_or("no item")?.map_err(|e| e.to_string())?;
        if k != "v" {
            return Err("key".into());
        }
        check_lazy(&lv, &vn, &wrapped, 2)
    });
    let mut arr = b"[ ".to_vec();
    arr.extend_from_slice(doc);
    arr.extend_from_slice(b" , 0]");
    let aroot = refjson::parse_doc(&arr, RMode::Decode).unwrap();
    let Kind::Arr(am) = &aroot.kind else { unreachable!() };
    let an = am[0].clone();
    run(ctx, "LazyValue via array iterator", &mut || {
        let lv = sonic_rs::to_array_iter(&arr[..]).next().ok_or("no item")?.map_err(|e| e.to_string())?;
        check_lazy(&lv, &an, &arr, 2)
    });
    run(ctx, "LazyValue via unchecked array iterator", &mut || {
        let lv = unsafe { sonic_rs::to_array_iter_unchecked(&arr[..]) }.next().ok_or("no item")?.map_err(|e| e.to_string())?;
        check_lazy(&lv, &an, &arr, 2)
    });
    for unchecked in [false, true] {
        run(ctx, if unchecked { "LazyValue via get_many_unchecked" } else { "LazyValue via get_many" }, &mut || {
            let mut tree = sonic_rs::PointerTree::new();
            tree.add_path(&["v"]);
            tree.add_path(&["v"]);
            let r = if unchecked { unsafe { sonic_rs::get_many_unchecked(&wrapped[..], &tree) } } else { sonic_rs::get_many(&wrapped[..], &tree) };
            let slots = r.map_err(|e| e.to_string())?;
            for lv in slots.iter() {
                let lv = lv.as_ref().ok_or("empty slot for a resolvable path")?;
                check_lazy(lv, &vn, &wrapped, 2)?;
            }
            Ok(())
        });
        run(ctx, if unchecked { "LazyValue via get_unchecked(child)" } else { "LazyValue via get_from_slice(array element)" }, &mut || {
            let lv = if unchecked {
                unsafe { sonic_rs::get_unchecked(&wrapped[..], &["v"]) }.map_err(|e| e.to_string())?
            } else {
                return {
                    let lv = sonic_rs::get_from_slice(&arr[..], &[0]).map_err(|e| e.to_string())?;
                    check_lazy(&lv, &an, &arr, 2)
                };
            };
            check_lazy(&lv, &vn, &wrapped, 2)
        });
    }
    // OwnedLazyValue sources
    run(ctx, "OwnedLazyValue via from_slice", &mut || {
        let o: OwnedLazyValue = sonic_rs::from_slice(doc).map_err(|e| e.to_string())?;
        check_owned(&o, &root, doc, true, 2)
    });
    run(ctx, "OwnedLazyValue struct field", &mut || {
        let x: FieldOwned = sonic_rs::from_slice(&wrapped).map_err(|e| e.to_string())?;
        check_owned(&x.v, &vn, &wrapped, true, 2)
    });
    run(ctx, "OwnedLazyValue From<LazyValue>(get)", &mut || {
        let lv = sonic_rs::get(&wrapped[..], &["v"]).map_err(|e| e.to_string())?;
        let o = OwnedLazyValue::from(lv);
        check_owned(&o, &vn, &wrapped, true, 2)
    });
    run(ctx, "OwnedLazyValue From<LazyValue>(serde)", &mut || {
        let lv: LazyValue = sonic_rs::from_slice(doc).map_err(|e| e.to_string())?;
        let o = OwnedLazyValue::from(lv);
        check_owned(&o, &root, doc, true, 2)
    });
    run(ctx, "OwnedLazyValue From<LazyValue>(iterator item)", &mut || {
        let lv = sonic_rs::to_array_iter(&arr[..]).next().ok_or("no item")?.map_err(|e| e.to_string())?;
        let o = OwnedLazyValue::from(lv);
        check_owned(&o, &an, &arr, true, 2)
    });
    run(ctx, "OwnedLazyValue via to_lazyvalue(Value)", &mut || {
        if has_nonfinite(&root) {
            return Ok(());
        }
        let v: Value = sonic_rs::from_slice(doc).map_err(|e| e.to_string())?;
        let o = sonic_rs::to_lazyvalue(&v).map_err(|e| e.to_string())?;
        // the text is the compact serialization of v
        let s = sonic_rs::to_string(&v).map_err(|e| e.to_string())?;
        let n = refjson::parse_doc(s.as_bytes(), RMode::Decode).map_err(|_| "to_string not well-formed".to_string())?;
        check_owned(&o, &n, s.as_bytes(), true, 2)
    });
    // deserialize-then-serialize reproduces the trimmed input (inside a framed document)
    run(ctx, "deserialize-then-serialize", &mut || {
        let mut framed = b" \n\t".to_vec();
        framed.extend_from_slice(doc);
        framed.extend_from_slice(b"  \r\n");
        let lv: LazyValue = sonic_rs::from_slice(&framed).map_err(|e| e.to_string())?;
        if sonic_rs::to_string(&lv).map_err(|e| e.to_string())?.as_bytes() != doc {
            return Err("LazyValue: not the trimmed input".into());
        }
        let o: OwnedLazyValue = sonic_rs::from_slice(&framed).map_err(|e| e.to_string())?;
        if sonic_rs::to_string(&o).map_err(|e| e.to_string())?.as_bytes() != doc {
            return Err(format!("OwnedLazyValue: {:?} is not the trimmed input", sonic_rs::to_string(&o).unwrap_or_default()));
        }
        Ok(())
    });
    ctx.sample(|| json!({"doc": String::from_utf8_lossy(doc)}));
}

// ------------------------------------------------------------------------------------------
// part B: histories

#[derive(Clone, Debug, PartialEq)]
pub enum M {
    Lit(String), // null / true / false / number text (compared semantically via dumps)
    Str(String),
    Arr(Vec<M>),
    Obj(Vec<(String, M)>),
}

fn m_of(n: &Node, src: &[u8]) -> M {
    match &n.kind {
        Kind::Str { val, .. } => M::Str(val.clone()),
        Kind::Arr(a) => M::Arr(a.iter().map(|x| m_of(x, src)).collect()),
        Kind::Obj(o) => M::Obj(o.iter().map(|(k, v)| (k.key_str().to_string(), m_of(v, src))).collect()),
        _ => M::Lit(n.dumps()),
    }
}
fn m_dump(m: &M, out: &mut String) {
    match m {
        M::Lit(s) => out.push_str(s),
        M::Str(s) => out.push_str(&format!("{:?}", s)),
        M::Arr(a) => {
            out.push('[');
            for (i, x) in a.iter().enumerate() {
                if i > 0 {
                    out.push(',');
                }
                m_dump(x, out);
            }
            out.push(']');
        }
        M::Obj(o) => {
            out.push('{');
            for (i, (k, v)) in o.iter().enumerate() {
                if i > 0 {
                    out.push(',');
                }
                out.push_str(&format!("{:?}:", k));
                m_dump(v, out);
            }
            out.push('}');
        }
    }
}
fn m_get_mut<'a>(m: &'a mut M, seg: &Sg) -> Option<&'a mut M> {
    match (m, seg) {
        (M::Arr(a), Sg::I(i)) => a.get_mut(*i),
        (M::Obj(o), Sg::K(k)) => o.iter_mut().find(|(k2, _)| k2 == k).map(|(_, v)| v),
        _ => None,
    }
}

#[derive(Clone, Debug)]
pub enum Sg {
    K(&'static str),
    I(usize),
}

#[derive(Clone, Debug)]
pub enum Op {
    Clone(usize),
    Take(usize),
    Drop(usize),
    ArrPush(usize, usize),
    ArrPop(usize),
    ArrSet0(usize, usize),
    ObjAppend(usize, &'static str, usize),
    ObjSetFirst(usize, usize),
    GetMutAssign(usize, Sg, usize),
    PtrMutAssign(usize, Sg, Sg, usize),
    PtrMutEmpty(usize, usize),
    ReadGet(usize, Sg),
    ReadAsContainer(usize),
    Serialize(usize),
}

pub const LEAVES: &[&str] = &["1", "\"s\\n\"", "[true , 2]", "null"];
const MAX_LIVE: usize = 3;

pub fn ops() -> Vec<Op> {
    let mut v = vec![];
    for i in 0..2 {
        v.push(Op::Clone(i));
        v.push(Op::Take(i));
        v.push(Op::ArrPush(i, 0));
        v.push(Op::ArrPush(i, 2));
        v.push(Op::ArrPop(i));
        v.push(Op::ArrSet0(i, 1));
        v.push(Op::ObjAppend(i, "a", 0));
        v.push(Op::ObjAppend(i, "z", 3));
        v.push(Op::ObjSetFirst(i, 2));
        v.push(Op::GetMutAssign(i, Sg::K("a"), 1));
        v.push(Op::GetMutAssign(i, Sg::I(1), 0));
        v.push(Op::GetMutAssign(i, Sg::I(9), 0));
        v.push(Op::PtrMutAssign(i, Sg::K("a"), Sg::I(1), 3));
        v.push(Op::PtrMutAssign(i, Sg::I(2), Sg::I(0), 1));
        v.push(Op::PtrMutAssign(i, Sg::I(0), Sg::I(0), 1));
        v.push(Op::PtrMutAssign(i, Sg::K("n"), Sg::K("x"), 0));
        v.push(Op::PtrMutEmpty(i, 0));
        v.push(Op::ReadGet(i, Sg::K("a")));
        v.push(Op::ReadGet(i, Sg::I(0)));
        v.push(Op::ReadAsContainer(i));
        v.push(Op::Serialize(i));
    }
    v.push(Op::Drop(1));
    v
}

pub const STARTS: &[&str] = &[
    "{\"a\":[1 ,{\"b\":2}],\"c\":\"s\\n\" }",
    "[1 , \"x\\\"\", [2 ,3 ], {\"k\":null}]",
    "\"e\\\"sc\"",
    "7",
    "true",
    "{}",
    "[]",
    // numbers whose text is not what a formatter would write, odd spacing
    "{\"a\":[1.50 ,{\"b\":1e2}] ,\"n\":12345678901234567890123,\"c\":[ ]}",
    "[ 1.50,2.0E+1 ,{\"k\":0.10}]",
    "1.50",
    "1E2",
];

fn leaf_olv(i: usize) -> OwnedLazyValue {
    sonic_rs::from_str(LEAVES[i]).unwrap()
}
fn leaf_m(i: usize) -> M {
    let n = refjson::parse_doc(LEAVES[i].as_bytes(), RMode::Decode).unwrap();
    m_of(&n, LEAVES[i].as_bytes())
}

fn mk_start(src: &str, how: usize) -> OwnedLazyValue {
    match how {
        0 => sonic_rs::from_str(src).unwrap(),
        1 => OwnedLazyValue::from(sonic_rs::get(src, sonic_rs::pointer![].iter()).unwrap()),
        _ => {
            let v: Value = sonic_rs::from_str(src).unwrap();
            sonic_rs::to_lazyvalue(&v).unwrap()
        }
    }
}

/// apply one op to implementation and model; returns a description of the observable result
fn apply(op: &Op, live: &mut Vec<OwnedLazyValue>, model: &mut Vec<M>) -> Result<(), String> {
    macro_rules! both {
        ($i:expr) => {
            if *$i >= live.len() {
                return Ok(());
            }
        };
    }
    match op {
        Op::Clone(i) => {
            both!(i);
            if live.len() < MAX_LIVE {
                let c = live[*i].clone();
                live.push(c);
                let m = model[*i].clone();
                model.push(m);
            }
        }
        Op::Take(i) => {
            both!(i);
            let t = live[*i].take();
            let m = std::mem::replace(&mut model[*i], M::Lit("null".into()));
            if live.len() < MAX_LIVE {
                live.push(t);
                model.push(m);
            }
        }
        Op::Drop(i) => {
            both!(i);
            live.remove(*i);
            model.remove(*i);
        }
        Op::ArrPush(i, l) => {
            both!(i);
            let got = live[*i].as_array_mut().map(|a| a.push(leaf_olv(*l))).is_some();
            let want = if let M::Arr(a) = &mut model[*i] {
                a.push(leaf_m(*l));
                true
            } else {
                false
            };
            if got != want {
                return Err(format!("as_array_mut is_some = {got}, model {want}"));
            }
        }
        Op::ArrPop(i) => {
            both!(i);
            let got = live[*i].as_array_mut().map(|a| a.pop().map(|x| olv_dump(&x)));
            let want = if let M::Arr(a) = &mut model[*i] { Some(a.pop()) } else { None };
            match (got, want) {
                (None, None) => {}
                (Some(None), Some(None)) => {}
                (Some(Some(g)), Some(Some(w))) => {
                    let mut s = String::new();
                    m_dump(&w, &mut s);
                    if g? != s {
                        return Err("popped element differs from the model".into());
                    }
                }
                _ => return Err("pop result differs from the model".into()),
            }
        }
        Op::ArrSet0(i, l) => {
            both!(i);
            let got = live[*i]
                .as_array_mut()
                .map(|a| {
                    if !a.is_empty() {
                        a[0] = leaf_olv(*l);
                    }
                })
                .is_some();
            let want = if let M::Arr(a) = &mut model[*i] {
                if !a.is_empty() {
                    a[0] = leaf_m(*l);
                }
                true
            } else {
                false
            };
            if got != want {
                return Err(format!("as_array_mut is_some = {got}, model {want}"));
            }
        }
        Op::ObjAppend(i, k, l) => {
            both!(i);
            let got = live[*i].as_object_mut().map(|o| o.append_pair(FastStr::new(k), leaf_olv(*l))).is_some();
            let want = if let M::Obj(o) = &mut model[*i] {
                o.push((k.to_string(), leaf_m(*l)));
                true
            } else {
                false
            };
            if got != want {
                return Err(format!("as_object_mut is_some = {got}, model {want}"));
            }
        }
        Op::ObjSetFirst(i, l) => {
            both!(i);
            let got = live[*i]
                .as_object_mut()
                .map(|o| {
                    if !o.is_empty() {
                        o[0].1 = leaf_olv(*l);
                    }
                })
                .is_some();
            let want = if let M::Obj(o) = &mut model[*i] {
                if !o.is_empty() {
                    o[0].1 = leaf_m(*l);
                }
                true
            } else {
                false
            };
            if got != want {
                return Err(format!("as_object_mut is_some = {got}, model {want}"));
            }
        }
        Op::GetMutAssign(i, seg, l) => {
            both!(i);
            let g = match seg {
                Sg::K(k) => live[*i].get_mut(*k),
                Sg::I(x) => live[*i].get_mut(*x),
            };
            let got = g.map(|x| *x = leaf_olv(*l)).is_some();
            let want = m_get_mut(&mut model[*i], seg).map(|x| *x = leaf_m(*l)).is_some();
            if got != want {
                return Err(format!("get_mut is_some = {got}, model {want}"));
            }
        }
        Op::PtrMutAssign(i, a, b, l) => {
            both!(i);
            let path: Vec<sonic_rs::PointerNode> = [a, b]
                .iter()
                .map(|s| match s {
                    Sg::K(k) => sonic_rs::PointerNode::Key(FastStr::new(k)),
                    Sg::I(x) => sonic_rs::PointerNode::Index(*x),
                })
                .collect();
            let got = live[*i].pointer_mut(path.iter()).map(|x| *x = leaf_olv(*l)).is_some();
            let want = m_get_mut(&mut model[*i], a).and_then(|x| m_get_mut(x, b)).map(|x| *x = leaf_m(*l)).is_some();
            if got != want {
                return Err(format!("pointer_mut is_some = {got}, model {want}"));
            }
        }
        Op::PtrMutEmpty(i, l) => {
            both!(i);
            let e: [usize; 0] = [];
            match live[*i].pointer_mut(e.iter()) {
                Some(x) => *x = leaf_olv(*l),
                None => return Err("pointer_mut(empty path) is None".into()),
            }
            model[*i] = leaf_m(*l);
        }
        Op::ReadGet(i, seg) => {
            both!(i);
            let g = match seg {
                Sg::K(k) => live[*i].get(*k).map(olv_dump),
                Sg::I(x) => live[*i].get(*x).map(olv_dump),
            };
            let w = m_get_mut(&mut model[*i], seg).map(|m| {
                let mut s = String::new();
                m_dump(m, &mut s);
                s
            });
            match (g, w) {
                (None, None) => {}
                (Some(g), Some(w)) => {
                    if g? != w {
                        return Err("get returns a different value than the model".into());
                    }
                }
                (g, w) => return Err(format!("get is_some = {}, model {}", g.is_some(), w.is_some())),
            }
        }
        Op::ReadAsContainer(i) => {
            both!(i);
            let ga = live[*i].as_array().map(|a| a.len());
            let go = live[*i].as_object().map(|o| o.len());
            let (wa, wo) = match &model[*i] {
                M::Arr(a) => (Some(a.len()), None),
                M::Obj(o) => (None, Some(o.len())),
                _ => (None, None),
            };
            if ga != wa || go != wo {
                return Err(format!("as_array().len() {:?} / as_object().len() {:?}, model {:?} / {:?}", ga, go, wa, wo));
            }
        }
        Op::Serialize(i) => {
            both!(i);
            let _ = sonic_rs::to_string(&live[*i]).map_err(|e| e.to_string())?;
        }
    }
    // every live value equals its model (this is also the aliasing check)
    for (k, (o, m)) in live.iter().zip(model.iter()).enumerate() {
        let g = olv_dump(o)?;
        let mut w = String::new();
        m_dump(m, &mut w);
        if g != w {
            return Err(format!("live value {k} is {g} but the model says {w}"));
        }
    }
    Ok(())
}

pub fn run_history(ctx: &mut Ctx, start: usize, how: usize, seq: &[u32], all_ops: &[Op]) {
    let src = STARTS[start];
    let hist: Vec<&Op> = seq.iter().map(|i| &all_ops[*i as usize]).collect();
    let r = guard(|| -> Result<(usize, String), (usize, String)> {
        let n = refjson::parse_doc(src.as_bytes(), RMode::Decode).unwrap();
        let mut live = vec![mk_start(src, how)];
        let mut model = vec![m_of(&n, src.as_bytes())];
        for (k, op) in hist.iter().enumerate() {
            // operations that read leave every live value byte-identical; mutable lookups that find
            // nothing may normalise the spacing of the container they were called on, but leave
            // every token (number spelling, string escapes) as it was
            fn tokens(s: &str) -> String {
                let mut out = String::new();
                let mut in_str = false;
                let mut esc = false;
                for c in s.chars() {
                    if in_str {
                        out.push(c);
                        if esc {
                            esc = false;
                        } else if c == '\\' {
                            esc = true;
                        } else if c == '"' {
                            in_str = false;
                        }
                    } else if c == '"' {
                        in_str = true;
                        out.push(c);
                    } else if !matches!(c, ' ' | '\n' | '\t' | '\r') {
                        out.push(c);
                    }
                }
                out
            }
            let before: Vec<String> = live.iter().map(|o| sonic_rs::to_string(o).unwrap_or_default()).collect();
            let before_model: Vec<String> = model
                .iter()
                .map(|m| {
                    let mut s = String::new();
                    m_dump(m, &mut s);
                    s
                })
                .collect();
            let n_before = live.len();
            apply(op, &mut live, &mut model).map_err(|e| (k, e))?;
            let pure = matches!(op, Op::ReadGet(..) | Op::ReadAsContainer(_) | Op::Serialize(_) | Op::Clone(_));
            for i in 0..n_before.min(live.len()) {
                if matches!(op, Op::Drop(_) | Op::Take(_)) {
                    break;
                }
                let mut now_model = String::new();
                m_dump(&model[i], &mut now_model);
                if pure || now_model == before_model[i] {
                    let now = sonic_rs::to_string(&live[i]).unwrap_or_default();
                    // a successful as_*_mut / get_mut that re-assigns an equal value may legitimately
                    // re-format: only operations that changed nothing in the model and returned
                    // "not found" / are reads are held to byte identity
                    let lookup_failed = match op {
                        Op::GetMutAssign(..) | Op::PtrMutAssign(..) => now_model == before_model[i],
                        _ => pure,
                    };
                    let same = if pure { now == before[i] } else { tokens(&now) == tokens(&before[i]) };
                    if lookup_failed && !same {
                        return Err((k, format!("live value {i} serialized as {:?} before and {:?} after an operation that changed nothing", before[i], now)));
                    }
                }
            }
        }
        let key = live.iter().map(|o| format!("{:?}", o)).collect::<Vec<_>>().join("|");
        Ok((live.len(), key))
    });
    ctx.state();
    ctx.calls(seq.len() as u64);
    let built = ["from_str", "From<LazyValue>", "to_lazyvalue"][how];
    let describe = || json!({"start": src, "built_by": built, "history": hist.iter().map(|o| format!("{:?}", o)).collect::<Vec<_>>()});
    match r {
        Ok(Ok((n, key))) => {
            ctx.outcome(&format!("history-ok/live={n}"));
            let mut h = crate::digest::Transcript::new();
            h.str(&key);
            ctx.note(&format!("end-state-class-{}", &h.digest_hex()[..2]), 1);
            if seq.len() >= 2 {
                ctx.nontrivial();
            }
        }
        Ok(Err((k, m))) => {
            ctx.outcome("VIOL");
            ctx.violation(&format!("history-diverges/{}", op_name(hist[k])), json!({"case": describe(), "failing_step": k, "mismatch": m}))
        }
        Err(p) => ctx.violation("panic/history", json!({"case": describe(), "panic": p})),
    }
    ctx.sample(describe);
}

fn op_name(op: &Op) -> &'static str {
    match op {
        Op::Clone(_) => "clone",
        Op::Take(_) => "take",
        Op::Drop(_) => "drop",
        Op::ArrPush(..) => "as_array_mut+push",
        Op::ArrPop(_) => "as_array_mut+pop",
        Op::ArrSet0(..) => "as_array_mut+replace",
        Op::ObjAppend(..) => "as_object_mut+append_pair",
        Op::ObjSetFirst(..) => "as_object_mut+replace",
        Op::GetMutAssign(..) => "get_mut+assign",
        Op::PtrMutAssign(..) => "pointer_mut+assign",
        Op::PtrMutEmpty(..) => "pointer_mut(empty)+assign",
        Op::ReadGet(..) => "get",
        Op::ReadAsContainer(_) => "as_array/as_object",
        Op::Serialize(_) => "to_string",
    }
}

pub fn families(tier: Tier, _variant: &str) -> Vec<Family> {
    let q = tier == Tier::Quick;
    let mut v = vec![];
    // part A
    {
        let g = DocGen {
            leaves: gen::strs(&["null", "true", "false", "0", "-0.0", "18446744073709551616", "1e400", "-12.5e-3", "\"\"", "\"a\"", "\"\\u00e9\\n\\\"\"", "\"\u{e9}\""]),
            keys: gen::strs(&["\"a\"", "\"b\\u0062\"", "\"\""]),
            style: gen::SPACED,
            allow_dup_keys: true,
        };
        v.push(Family::of_vec("values<=3nodes", g.docs(if q { 3 } else { 4 }), |d, ctx| check_views(ctx, d.as_bytes())));
        let g2 = DocGen { leaves: gen::strs(&["1", "\"x\\n\"", "true"]), keys: gen::strs(&["\"a\"", "\"b\""]), style: gen::PRETTY, allow_dup_keys: true };
        v.push(Family::of_vec("values<=5nodes/small-leaves", g2.docs(if q { 4 } else { 5 }), |d, ctx| check_views(ctx, d.as_bytes())));
        // strings and numbers of every length (cache / escape handling is length independent)
        let mut docs = vec![];
        for n in 0..(if q { 70 } else { 140 }) {
            docs.push(format!("\"{}\\n{}\"", "s".repeat(n), "t".repeat(n % 7)));
            docs.push(format!("[\"{}\", {}1, {{\"{}\":\"\\\"{}\"}}]", "u".repeat(n), "9".repeat(n % 19), "k".repeat(n), "v".repeat(n)));
        }
        v.push(Family::of_vec("length-sweep", docs, |d, ctx| check_views(ctx, d.as_bytes())));
        // structural bytes inside strings at every offset of the 32/64-byte blocks of the unchecked
        // skippers that lazy children go through
        v.push(Family::of_vec("block-edge-sweep", crate::props::lazy::block_edge_docs(if q { 70 } else { 135 }), |d, ctx| check_views(ctx, d)));
    }
    v.push(Family::of_vec("number-shapes+spaced-empties", crate::props::lazy::shape_docs(), |d, ctx| check_views(ctx, d)));
    {
        let n = if q { 3 } else { 4 };
        v.push(Family::of_vec(&format!("all-escapes-docs<={n}nodes"), crate::props::lazy::all_escapes_gen().docs(n), |d, ctx| check_views(ctx, d.as_bytes())));
        v.push(Family::of_vec("range-edge-numbers", gen::range_edge_numbers(), |d, ctx| {
            if refjson::parse_doc(d.as_bytes(), RMode::Decode).is_ok() {
                check_views(ctx, d.as_bytes());
                check_views(ctx, format!("[{d}]").as_bytes());
            }
        }));
    }
    // part B
    {
        let all = ops();
        let k = all.len() as u64;
        let depth = if q { 3 } else { 4 };
        let per = gen::seq_count(k, depth);
        let nstart = (STARTS.len() * 3) as u64;
        v.push(Family::new(&format!("owned-lazy-histories<=depth{}", depth), per * nstart, move |idx, ctx| {
            let s = (idx / per) as usize;
            let mut seq = vec![];
            gen::nth_seq(k, depth, idx % per, &mut seq);
            run_history(ctx, s / 3, s % 3, &seq, &all);
        }));
    }
    v
}
