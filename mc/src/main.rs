//! mc - bounded exhaustive exploration of sonic-rs (see /verif/DESIGN.md)
#![allow(clippy::all)]
#![allow(dead_code)]

mod digest;
mod engine;
mod fence;
mod gen;
mod props;
mod refjson;
mod subj;
mod types;
mod walk;

use std::path::PathBuf;

use engine::*;

#[global_allocator]
static GLOBAL: fence::FenceAlloc = fence::FenceAlloc;
use serde_json::{json, Value as J};

fn usage() -> ! {
    eprintln!(
        "usage:\n  mc run <PROP> --tier quick|thorough --variant NAME --out FILE [--shards N] [--transcript]\n  mc case <PROP> --tier T --variant V --family F --idx I\n  mc replay <FILE>\n  mc list"
    );
    std::process::exit(2)
}

struct Args {
    cmd: String,
    prop: String,
    tier: Tier,
    variant: String,
    shards: u64,
    shard: Option<(u64, u64)>,
    start: (u64, u64),
    workdir: Option<PathBuf>,
    out: Option<PathBuf>,
    family: Option<String>,
    idx: Option<u64>,
    wall_cap: f64,
    transcript: bool,
    file: Option<String>,
    extra: Vec<String>,
}

fn parse_args() -> Args {
    let a: Vec<String> = std::env::args().collect();
    if a.len() < 2 {
        usage();
    }
    let mut r = Args {
        cmd: a[1].clone(),
        prop: String::new(),
        tier: Tier::Quick,
        variant: "native-checked".into(),
        shards: std::thread::available_parallelism().map(|n| n.get() as u64).unwrap_or(8),
        shard: None,
        start: (0, 0),
        workdir: None,
        out: None,
        family: None,
        idx: None,
        wall_cap: 1e9,
        transcript: false,
        file: None,
        extra: vec![],
    };
    let mut i = 2;
    if r.cmd == "replay" {
        r.file = a.get(2).cloned();
        return r;
    }
    if a.len() > 2 && !a[2].starts_with("--") {
        r.prop = a[2].clone();
        i = 3;
    }
    while i < a.len() {
        let v = |i: usize| a.get(i + 1).cloned().unwrap_or_else(|| usage());
        match a[i].as_str() {
            "--tier" => {
                r.tier = if v(i) == "thorough" { Tier::Thorough } else { Tier::Quick };
                i += 2;
            }
            "--variant" => {
                r.variant = v(i);
                i += 2;
            }
            "--shards" => {
                r.shards = v(i).parse().unwrap();
                i += 2;
            }
            "--shard" => {
                let s = v(i);
                let (k, n) = s.split_once('/').unwrap();
                r.shard = Some((k.parse().unwrap(), n.parse().unwrap()));
                i += 2;
            }
            "--start" => {
                let s = v(i);
                let (f, x) = s.split_once(':').unwrap();
                r.start = (f.parse().unwrap(), x.parse().unwrap());
                i += 2;
            }
            "--workdir" => {
                r.workdir = Some(PathBuf::from(v(i)));
                i += 2;
            }
            "--out" => {
                r.out = Some(PathBuf::from(v(i)));
                i += 2;
            }
            "--family" => {
                r.family = Some(v(i));
                i += 2;
            }
            "--idx" => {
                r.idx = Some(v(i).parse().unwrap());
                i += 2;
            }
            "--wall-cap" => {
                r.wall_cap = v(i).parse().unwrap();
                i += 2;
            }
            "--transcript" => {
                r.transcript = true;
                i += 1;
            }
            other => {
                eprintln!("unknown argument {other}");
                usage()
            }
        }
    }
    r
}

fn verif_root() -> PathBuf {
    std::env::var("VERIF_ROOT").map(PathBuf::from).unwrap_or_else(|_| PathBuf::from("/verif"))
}

/// one `status == "known"` entry: a violation is this finding when its class starts with
/// `class_prefix` and - if the entry names specific inputs - its detail contains one of them
struct Known {
    id: String,
    class_prefix: String,
    what: String,
    detail_contains: Vec<String>,
}
impl Known {
    fn class_matches(&self, class: &str) -> bool {
        class.starts_with(self.class_prefix.as_str())
    }
    fn matches(&self, class: &str, detail: &J) -> bool {
        if !self.class_matches(class) {
            return false;
        }
        if self.detail_contains.is_empty() {
            return true;
        }
        let d = detail.to_string();
        self.detail_contains.iter().any(|needle| d.contains(needle.as_str()))
    }
}

fn load_known(prop: &str) -> Vec<Known> {
    let p = verif_root().join("known_findings.json");
    let mut out = vec![];
    if let Ok(txt) = std::fs::read_to_string(&p) {
        let j: J = serde_json::from_str(&txt).unwrap_or_else(|e| {
            eprintln!("known_findings.json does not parse: {e}");
            std::process::exit(2)
        });
        for f in j["findings"].as_array().cloned().unwrap_or_default() {
            if f["property"].as_str() == Some(prop) && f["status"].as_str() == Some("known") {
                let detail_contains: Vec<String> =
                    f["detail_contains"].as_array().cloned().unwrap_or_default().iter().filter_map(|x| x.as_str().map(|s| s.to_string())).collect();
                for c in f["class_prefixes"].as_array().cloned().unwrap_or_default() {
                    out.push(Known {
                        id: f["id"].as_str().unwrap_or("?").to_string(),
                        class_prefix: c.as_str().unwrap_or("").to_string(),
                        what: f["what"].as_str().unwrap_or("").to_string(),
                        detail_contains: detail_contains.clone(),
                    });
                }
            }
        }
    }
    out
}

fn main() {
    let args = parse_args();
    match args.cmd.as_str() {
        "list" => {
            for p in props::ALL {
                println!("{p}");
            }
        }
        "families" => {
            // sizes of the spaces of one check (sizing aid; no subject code runs)
            let t0 = std::time::Instant::now();
            let fams = props::families(&args.prop, args.tier, &args.variant);
            let mut total = 0u64;
            for f in &fams {
                println!("{:>12}  {}", f.count, f.name);
                total += f.count;
            }
            println!("{:>12}  total ({} families, materialised in {:.1}s)", total, fams.len(), t0.elapsed().as_secs_f64());
        }
        "run" => {
            let prop = args.prop.clone();
            let seed: u64 =
                std::env::var("VERIF_SEED").ok().and_then(|s| s.parse().ok()).unwrap_or(0);
            let cfg = RunCfg {
                prop: prop.clone(),
                tier: args.tier,
                variant: args.variant.clone(),
                shards: args.shards,
                workdir: args
                    .workdir
                    .clone()
                    .unwrap_or_else(|| verif_root().join("work").join(format!("{}-{}", prop, args.variant))),
                seed,
                wall_cap_s: args.wall_cap,
                transcript: args.transcript,
            };
            let fams = props::families(&prop, args.tier, &args.variant);
            if fams.is_empty() {
                eprintln!("no families for property {prop} in variant {}", args.variant);
                std::process::exit(2);
            }
            let summary = match run_parent(&fams, &cfg, &args.extra) {
                Ok(s) => s,
                Err(e) => {
                    eprintln!("MACHINERY-ERROR property={prop} {e}");
                    std::process::exit(2);
                }
            };
            // classify violations against the committed known-findings file
            let known = load_known(&prop);
            let mut known_hits: std::collections::BTreeMap<String, (String, u64)> = Default::default();
            let mut unknown: Vec<J> = vec![];
            let counts = summary["viol_counts"].as_object().cloned().unwrap_or_default();
            let mut listed_per_class: std::collections::BTreeMap<String, u64> = Default::default();
            for v in summary["violations"].as_array().cloned().unwrap_or_default() {
                let class = v["class"].as_str().unwrap_or("").to_string();
                *listed_per_class.entry(class.clone()).or_insert(0) += 1;
                if let Some(k) = known.iter().find(|k| k.matches(&class, &v["detail"])) {
                    let e = known_hits.entry(k.id.clone()).or_insert((k.what.clone(), 0));
                    if !k.detail_contains.is_empty() {
                        e.1 += 1;
                    }
                } else {
                    unknown.push(v);
                }
            }
            for (class, n) in &counts {
                let n = n.as_u64().unwrap_or(0);
                if let Some(k) = known.iter().find(|k| k.class_matches(class)) {
                    if k.detail_contains.is_empty() {
                        // the finding is a whole class of violations
                        let e = known_hits.entry(k.id.clone()).or_insert((k.what.clone(), 0));
                        e.1 += n;
                    } else {
                        // the finding is specific inputs: violations of this class beyond the
                        // listing cap cannot be told apart from it and are not excused
                        let listed = listed_per_class.get(class).copied().unwrap_or(0);
                        if n > listed {
                            unknown.push(json!({"class": class, "family": "(several)", "idx": 0,
                                "detail": {"note": format!("{} further violations of this class were counted beyond the per-class listing cap; they are not covered by a known finding", n - listed)}}));
                        }
                    }
                }
            }
            for (id, (what, n)) in &known_hits {
                println!("KNOWN-FINDING: property={prop} {id}: {what} ({n} enumerated cases)");
            }
            let rdir = verif_root().join("replays").join(&prop);
            let _ = std::fs::create_dir_all(&rdir);
            let mut nviol = 0u64;
            let mut replay_paths = vec![];
            for (i, v) in unknown.iter().enumerate() {
                let path = rdir.join(format!("{}-{}-{}.json", args.variant, args.tier.name(), i));
                let rec = json!({
                    "property": prop, "tier": args.tier.name(), "variant": args.variant,
                    "family": v["family"], "idx": v["idx"], "class": v["class"], "detail": v["detail"],
                    "replay_cmd": format!("/verif/check {} --replay {}", prop, path.display()),
                });
                std::fs::write(&path, serde_json::to_string_pretty(&rec).unwrap()).unwrap();
                println!("VIOLATION property={} replay={}", prop, path.display());
                println!("  class={} {}", v["class"], v["detail"]);
                replay_paths.push(path.display().to_string());
                nviol += 1;
            }
            let mut s = summary;
            s["violations_unknown"] = json!(nviol);
            s["known_findings_hit"] =
                json!(known_hits.iter().map(|(k, v)| json!({"id": k, "what": v.0, "cases": v.1})).collect::<Vec<_>>());
            s["replays"] = json!(replay_paths);
            if let Some(out) = &args.out {
                if let Some(d) = out.parent() {
                    let _ = std::fs::create_dir_all(d);
                }
                std::fs::write(out, serde_json::to_string_pretty(&s).unwrap()).unwrap();
            }
            println!(
                "SUMMARY property={} variant={} tier={} states={} transitions={} nontrivial={} outcomes={} capped={} wall_s={:.1}",
                prop,
                args.variant,
                args.tier.name(),
                s["states"],
                s["transitions"],
                s["nontrivial"],
                s["outcomes"].as_object().map(|o| o.len()).unwrap_or(0),
                s["capped"],
                s["wall_s"].as_f64().unwrap_or(0.0)
            );
            std::process::exit(if nviol > 0 { 1 } else { 0 });
        }
        "shard" => {
            let (k, n) = args.shard.unwrap_or_else(|| usage());
            let cfg = RunCfg {
                prop: args.prop.clone(),
                tier: args.tier,
                variant: args.variant.clone(),
                shards: n,
                workdir: args.workdir.clone().unwrap_or_else(|| usage()),
                seed: 0,
                wall_cap_s: args.wall_cap,
                transcript: args.transcript,
            };
            let fams = props::families(&args.prop, args.tier, &args.variant);
            let hooks = props::worker_hooks(&args.prop);
            let j = run_shard(&fams, &cfg, k, args.start, false, &hooks);
            // when restarted after a crash, merge with the previous partial file if any
            let p = cfg.workdir.join(format!("shard-{}.json", k));
            std::fs::write(&p, serde_json::to_string(&j).unwrap()).unwrap();
        }
        "case" => {
            let fams = props::families(&args.prop, args.tier, &args.variant);
            let fam = args.family.clone().unwrap_or_else(|| usage());
            let idx = args.idx.unwrap_or_else(|| usage());
            std::process::exit(run_case_t(&args.prop, args.tier, &args.variant, &fams, &fam, idx, args.transcript));
        }
        "replay" => {
            let f = args.file.clone().unwrap_or_else(|| usage());
            let txt = std::fs::read_to_string(&f).unwrap_or_else(|e| {
                eprintln!("cannot read {f}: {e}");
                std::process::exit(2)
            });
            let j: J = serde_json::from_str(&txt).unwrap();
            let prop = j["property"].as_str().unwrap().to_string();
            let tier = if j["tier"].as_str() == Some("thorough") { Tier::Thorough } else { Tier::Quick };
            let variant = j["variant"].as_str().unwrap_or("native-checked").to_string();
            let fams = props::families(&prop, tier, &variant);
            std::process::exit(run_case(
                &prop,
                tier,
                &variant,
                &fams,
                j["family"].as_str().unwrap(),
                j["idx"].as_u64().unwrap(),
            ));
        }
        _ => usage(),
    }
}

fn run_case(prop: &str, tier: Tier, variant: &str, fams: &[Family], fam: &str, idx: u64) -> i32 {
    run_case_t(prop, tier, variant, fams, fam, idx, false)
}

fn run_case_t(prop: &str, tier: Tier, variant: &str, fams: &[Family], fam: &str, idx: u64, transcript: bool) -> i32 {
    let Some(f) = fams.iter().find(|f| f.name == fam) else {
        eprintln!("no family {fam}; have: {:?}", fams.iter().map(|f| &f.name).collect::<Vec<_>>());
        return 2;
    };
    if idx >= f.count {
        eprintln!("index {idx} out of range ({} cases)", f.count);
        return 2;
    }
    let hooks = props::worker_hooks(prop);
    let mut ctx = Ctx::new(prop, tier, variant);
    ctx.verbose = !transcript;
    if transcript {
        ctx.transcript = Some(digest::Transcript::new());
    }
    ctx.cur_family = fam.to_string();
    ctx.cur_idx = idx;
    (hooks.before_case)();
    (f.run)(idx, &mut ctx);
    (hooks.after_case)(&mut ctx);
    if let Some(t) = ctx.transcript.as_ref() {
        println!("TRANSCRIPT {}", t.digest_hex());
    }
    println!(
        "case {prop}/{fam}/{idx}: states={} calls={} outcomes={:?}",
        ctx.states, ctx.transitions, ctx.outcomes
    );
    for s in &ctx.samples {
        println!("sample: {s}");
    }
    if ctx.violations.is_empty() {
        println!("no violation in this case");
        0
    } else {
        for v in &ctx.violations {
            println!("VIOLATION-IN-CASE class={} detail={}", v.class, v.detail);
        }
        1
    }
}
