#!/usr/bin/env python3
"""Regenerate MANIFEST.json from checks.json (single source of truth for commands and texts)."""
import json, os
ROOT = os.path.dirname(os.path.dirname(os.path.abspath(__file__)))
checks = json.load(open(os.path.join(ROOT, "checks.json")))
props = [json.loads(l) for l in open(os.path.join(ROOT, "properties.jsonl"))]
na_reasons = json.load(open(os.path.join(ROOT, "not_applicable.json"))) if os.path.exists(os.path.join(ROOT, "not_applicable.json")) else {}
hooks_commits = []
hp = os.path.join(ROOT, "hooks_commits.txt")
if os.path.exists(hp):
    hooks_commits = [l.strip() for l in open(hp) if l.strip()]
man = {
    "version": 1,
    "setup_cmd": "cd /verif && ./check setup",
    "hooks": {
        "guard": "--cfg sonic_rs_verif (rustc cfg; no cargo feature, Cargo.toml untouched)",
        "enable": "RUSTFLAGS='-C target-cpu=native --cfg sonic_rs_verif' (only the loom variant used by C18 builds with it; every other check explores the unmodified production code)",
        "baseline_off_cmd": "cd /repo && cargo test --workspace --no-fail-fast --offline",
        "source_commits": hooks_commits,
        "add_only": True,
    },
    "engines": [
        {"name": "mc", "path": "/verif/mc", "serves_properties": sorted(checks.keys()),
         "kind_free_text": "Rust harness that links the real sonic-rs from /repo and exhaustively enumerates bounded spaces of inputs, operation histories, writer fault points and thread schedules (loom) against reference models; /verif/check builds the needed variants and merges evidence"},
    ],
    "checks": [],
    "not_applicable": [],
    "notes": "All checks decide by complete enumeration of a stated bounded space on the real implementation (model checking family). exit 0 held / 1 violation / 2 machinery failure. Known genuine defects: /verif/known_findings.json.",
}
for p in props:
    pid = p["id"]
    if pid in checks:
        c = checks[pid]
        man["checks"].append({
            "property_id": pid,
            "quick_cmd": f"cd /verif && ./check {pid} --tier quick",
            "thorough_cmd": f"cd /verif && ./check {pid} --tier thorough",
            "evidence_file": f"/verif/evidence/{pid}.json",
            "replay_cmd_template": f"cd /verif && ./check {pid} --replay {{path}}",
            "engine": "mc",
            "level_claimed": {
                "category": "model_checking",
                "text": c.get("level_text", c.get("rule", "")),
                "design_ref": c.get("design_ref", f"DESIGN.md §3 {pid}"),
            },
            "level_note": c.get("level_note", "; ".join(c.get("assumptions", []))),
            "technique": c.get("technique", "bounded exhaustive enumeration of inputs against a reference model, on the real code"),
        })
    else:
        man["not_applicable"].append({"property_id": pid, "reason": na_reasons.get(pid, "check not built yet (work in progress); see DESIGN.md §3 for the planned bounded exhaustive check")})
json.dump(man, open(os.path.join(ROOT, "MANIFEST.json"), "w"), indent=1)
print("MANIFEST.json:", len(man["checks"]), "checks,", len(man["not_applicable"]), "not_applicable")
