#!/usr/bin/env python3
"""keep_seed.py <tmp-id> <name> <property> : copy a confirmed seeded change into /verif/seeded/<name>/"""
import sys, os, shutil, json, subprocess
tid, name, prop = sys.argv[1:4]
src = os.environ.get("SEED_SRC", "/tmp/seed") + f"/{tid}"
dst = f"/verif/seeded/{name}"
os.makedirs(dst, exist_ok=True)
for f in ("patch.diff", "demo.rs", "notes.md", "confirm.txt"):
    if os.path.exists(f"{src}/{f}"):
        shutil.copy(f"{src}/{f}", f"{dst}/{f}")
conf = open(f"{src}/confirm.txt").read() if os.path.exists(f"{src}/confirm.txt") else ""
ok = ("demo_with_patch_rc=101" in conf) and ("demo_without_patch_rc=0" in conf) and conf.count("test result: ok. 90 passed") >= 1
notes = open(f"{src}/notes.md").read() if os.path.exists(f"{src}/notes.md") else ""
base = subprocess.run(["git", "-C", "/repo", "rev-parse", "--short", "HEAD"], capture_output=True, text=True).stdout.strip()
meta = {
    "breaks_property": prop,
    "origin": "independent sub-agent given only the property text and a scratch worktree",
    "needs_to_manifest": notes.strip().split("\n")[0:12],
    "confirmed_by_me": {
        "how": "tools/confirm_seed.sh in a scratch worktree: baseline suite with the patch (90 lib + 145 doc tests), demo with the patch (must fail), demo without (must pass)",
        "result_ok": ok,
        "log": conf.strip().split("\n"),
    },
    "applies_to_repo_head": base,
    "detected_by": [],
}
mp = f"{dst}/meta.json"
if os.path.exists(mp):
    old = json.load(open(mp))
    meta["detected_by"] = old.get("detected_by", [])
json.dump(meta, open(mp, "w"), indent=1)
print(name, "kept; confirmed =", ok)
