#!/usr/bin/env python3
"""Run every kept seeded change against the checks that should see it and record the outcome in its meta.json.
usage: seedmatrix.py [seed-name ...]   (default: all)"""
import json, os, subprocess, sys, glob
ROOT="/verif"
RELATED={ # seed property -> checks to run (own property first)
 "C01":["C01","C07"],"C02":["C02","C14"],"C03":["C03","C09"],"C04":["C04","C07"],"C05":["C05"],"C06":["C06","C05"],"C07":["C07"],"C08":["C08","C07"],
 "C09":["C09","C10"],"C10":["C10"],"C11":["C11"],"C12":["C12","C10"],"C13":["C13","C10"],"C14":["C14","C02"],"C15":["C15"],"C16":["C16"],"C17":["C17"],"C18":["C18"],"C19":["C19"],"C20":["C20"]}
names=sys.argv[1:] or sorted(os.path.basename(p) for p in glob.glob(f"{ROOT}/seeded/*") if os.path.isdir(p))
if subprocess.run(["git","-C","/repo","diff","--quiet"]).returncode!=0:
    print("/repo is dirty"); sys.exit(2)
for n in names:
    d=f"{ROOT}/seeded/{n}"
    meta=json.load(open(f"{d}/meta.json"))
    prop=meta["breaks_property"]
    res=[]
    if subprocess.run(["git","-C","/repo","apply",f"{d}/patch.diff"]).returncode!=0:
        print(n,"patch does not apply"); meta["applies"]=False; json.dump(meta,open(f"{d}/meta.json","w"),indent=1); continue
    try:
        for chk in RELATED.get(prop,[prop]):
            p=subprocess.run([f"{ROOT}/check",chk,"--tier","quick"],capture_output=True,text=True)
            classes=sorted(set(l.strip().split(" ")[0].replace("class=","").strip('"') for l in p.stdout.splitlines() if l.strip().startswith("class=")))
            nviol=sum(1 for l in p.stdout.splitlines() if l.startswith("VIOLATION"))
            res.append({"check":chk,"tier":"quick","exit":p.returncode,"violation_lines":nviol,"classes":classes[:6]})
            print(n,chk,"exit",p.returncode,"violations",nviol,classes[:3])
    finally:
        subprocess.run(["git","-C","/repo","checkout","--","."])
    meta["detected_by"]=res
    meta["detected"]=any(r["exit"]==1 for r in res)
    json.dump(meta,open(f"{d}/meta.json","w"),indent=1)
# restore evidence of the checks on the unchanged tree
