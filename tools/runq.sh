#!/bin/bash
# quick dev run of one property in the native-checked variant, with a readable summary
p=$1; tier=${2:-quick}; variant=${3:-native-checked}
(cd /verif/mc && CARGO_TARGET_DIR=/verif/target/native RUSTFLAGS="-C target-cpu=native" cargo build --release --offline 2>&1 | grep -E "^error" -A12)
/verif/target/native/release/mc run $p --tier $tier --variant $variant --out /verif/work/$p.$variant.json 2>&1 | grep -E "SUMMARY|MACHINERY|KNOWN" | tail -3
python3 - <<PY
import json
j=json.load(open('/verif/work/$p.$variant.json'))
for k,v in sorted(j['viol_counts'].items()): print(v,k)
print(j['outcomes'])
for f in j['families']: print(f)
for v in j['violations'][:${4:-12}]:
    d=v['detail']; 
    s=json.dumps(d)[:700]
    print(v['class'],'|',v['family'],v['idx'],'|',s)
PY
