#!/bin/bash
# usage: tools/tryseed.sh <patch.diff> <PROP> [tier]  -- apply a seeded change to /repo, run the check, undo
set -u
patch=$1; prop=$2; tier=${3:-quick}
git -C /repo diff --quiet || { echo "/repo is dirty"; exit 2; }
git -C /repo apply "$patch" || { echo "patch does not apply"; exit 2; }
/verif/check $prop --tier $tier > /tmp/tryseed.$prop.out 2>&1
rc=$?
git -C /repo checkout -- .
echo "rc=$rc violations=$(grep -c '^VIOLATION' /tmp/tryseed.$prop.out)"
grep -A1 '^VIOLATION' /tmp/tryseed.$prop.out | grep class | cut -c1-260 | sort | uniq -c | sort -rn | head -5
grep -E "MACHINERY|SUMMARY" /tmp/tryseed.$prop.out | head -5
