#!/bin/bash
# usage: confirm_seed.sh <worktree> <seeddir>
# confirms: suite passes with the patch; demo fails with it and passes without it
wt=$1; sd=$2
cd $wt || exit 2
export CARGO_TARGET_DIR=$wt/target
out=$sd/confirm.txt
: > $out
git checkout -q -- . ; rm -f tests/demo_seed.rs
git apply $sd/patch.diff || { echo "APPLY-FAILED" >> $out; exit 1; }
mkdir -p tests
# 1. suite with patch, without demo
cargo test --workspace --no-fail-fast --offline 2>&1 | grep -E "^test result" >> $out
cp $sd/demo.rs tests/demo_seed.rs
# 2. demo with patch: must fail
cargo test --offline --test demo_seed > $sd/confirm.log 2>&1; echo "demo_with_patch_rc=$?" >> $out
grep -E "^test result" $sd/confirm.log >> $out
# 3. demo without patch: must pass
git checkout -q -- src sonic-number sonic-simd
cargo test --offline --test demo_seed > $sd/confirm.log 2>&1; echo "demo_without_patch_rc=$?" >> $out
grep -E "^test result" $sd/confirm.log >> $out
rm -f $sd/confirm.log
cat $out
