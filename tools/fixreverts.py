#!/usr/bin/env python3
"""For every 'fix:' commit of /repo: revert it in the working tree, run the check(s) that must see the
defect again, undo.  Writes /verif/fix_reverts.json and the 'fixed' entries of known_findings.json."""
import json, subprocess, sys
FIX = [ # (id, commit, property, checks, what failed)
 ("F2","3b4a5a4","C02",["C02","C14"],"validate-and-skip entry points (LazyValue, OwnedLazyValue, IgnoredAny, unknown fields, checked get) accepted non-hex \\u escapes such as \"\\uZZZZ\""),
 ("F9","e9bbbdb","C01",["C01","C02"],"from_str::<LazyValue>(\"\") / IgnoredAny panicked with 'attempt to subtract with overflow' in overflow-checked builds"),
 ("F19/F20","0fb8569","C02",["C02"],"Deserializer::deserialize::<Value>/<LazyValue> accepted a string closed only by the padding sentinel (input \"\\\") and invalid UTF-8 inside strings"),
 ("F3","3854948","C07",["C07","C03","C08"],"-0, -0.0, -0e1 parsed as +0.0; to_string(-0.0) did not read back as -0.0"),
 ("F4","178ab8f","C05",["C05"],"to_writer(io::BufWriter) reordered the output: \"a\"\"b\"[,]"),
 ("F5","8bb5fcf","C13",["C13"],"OwnedLazyValue::from(LazyValue)/to_lazyvalue of true/false/null panicked in get_type()/is_null()"),
 ("F8/F12","ff9258b","C18",["C18"],"spurious weak-CAS failure made Inner::parse_from / LazyRaw::load dereference a null witness"),
 ("F7","48352cc","C14",["C14"],"checked get(r#\"{x\"a\":1}\"#,[\"a\"]) succeeded (garbage before the first key)"),
 ("F11","b9fa68d","C17",["C17"],"u8x16::gt / u8x32::gt were todo!() in the SSE2/AVX2 backends"),
 ("F18","27ebdfa","C15",["C15"],"Entry::key() of an occupied entry returned the value's string / panicked"),
 ("F17","4284764","C15",["C15"],"Value::pointer_mut(empty path) panicked"),
 ("F13","1d32ffe","C19",["C19"],"Object == was not symmetric with duplicate keys"),
 ("F15","1974419","C20",["C20"],"enum errors made by the visitor (unit variant for a newtype variant) had line 0 / column 0"),
 ("F1","090346c","C01",["C01"],"deep nesting (\"[\"x100000) overflowed the stack through every entry point (recursion guard dropped at once)"),
 ("F6","74f4a90","C12",["C12","C13"],"unchecked iterators / owned-lazy children returned numbers with trailing whitespace"),
 ("F14","a412b1a","C20",["C20"],"get_by_schema errors were positioned relative to the sub-value"),
 ("F21","4ed86c2","C09",["C09"],"lossy Deserializer::deserialize::<Value> accepted \"\\xff\\\" (string closed by the padding of the repaired copy)"),
 ("F22","edc921c","C09",["C09"],"lossy copy decoder swallowed six bytes after a lone high surrogate (\"\\ud800\\ue000\" -> U+FFFD only; EOF error when followed by more input)"),
 ("F16","c31b4a5","C12",["C12"],"checked iterators reported one error and no items when invalid UTF-8 occurred anywhere in the input, even behind the container"),
 ("F23","dc312a8","C11",["C11"],"get_many panicked (debug_assert strbuf.is_empty) after an escaped parent key"),
 ("F24","f8cd456","C01",["C14","C20"],"get_many on a document repeating a requested key: 'attempt to subtract with overflow' (remain counter), last duplicate wins"),
 ("F25","a93a329","C20",["C20"],"DOM parse errors computed line/column in the unescaped buffer ([\"\\n\" reported line 2)"),
 ("F26","dde6d7b","C13",["C13"],"olv.as_array().unwrap().len() on an unparsed OwnedLazyValue panicked 'must be a lazy array'"),
 ("F27","05bbab6","C13",["C13"],"clone of a read OwnedLazyValue serialized 18446744073709551616 as 1.8446744073709552e19"),
 ("F28","3537e24","C04",["C04"],"{\" 1\":true} deserialized into a map keyed by 1 (serde_json rejects)"),
 ("F29","6090985","C19",["C19"],"to_value rejected Option / i128 / u128 map keys that to_string accepts"),
 ("F30","d8d7c3a","C18",["C18"],"the losing decoding of a racing LazyValue::as_str leaked its String buffer (released as Arc<()>)"),
 ("F31","5db80dd","C17",["C17"],"BitMask::clear_high_bits(LEN) overflowed the shift"),
 ("F32","dccae5b","C20",["C20"],"errors made by derive code of untagged / internally tagged enums ('did not match any variant') had line 0 / column 0"),
 ("F35","c784046","C20",["C20","C09"],"lossy-mode Deserializer::deserialize::<Value> reported error positions of the repaired copy (offset beyond the input) and advanced the reader by the bytes consumed in the copy (next stream document misplaced, subtract overflow)"),
 ("F34","4402712","C19",["C19"],"from_value rejected an empty tuple variant ({\"V\":[]}: 'invalid type: null, expected tuple variant') that from_str of the same text accepts"),
]
only = sys.argv[1:]
out = {}
try:
    out = json.load(open("/verif/fix_reverts.json"))
except Exception:
    pass
if subprocess.run(["git","-C","/repo","diff","--quiet"]).returncode!=0:
    print("/repo is dirty"); sys.exit(2)
for fid, commit, prop, checks, what in FIX:
    if only and fid not in only: continue
    patch = subprocess.run(["git","-C","/repo","show",commit,"--format="],capture_output=True,text=True).stdout
    ap = subprocess.run(["git","-C","/repo","apply","-R","-3"],input=patch,text=True,capture_output=True)
    if ap.returncode!=0:
        subprocess.run(["git","-C","/repo","reset","--hard","-q"])
        out[fid]={"commit":commit,"property":prop,"revert_applies":False,"note":"a later fix touches the same lines; the regression is covered by the later fix's revert or by a seeded change"}
        print(fid,"revert does not apply"); continue
    subprocess.run(["git","-C","/repo","reset","-q"])
    res=[]
    try:
        for chk in checks:
            p=subprocess.run(["/verif/check",chk,"--tier","quick"],capture_output=True,text=True)
            classes=sorted(set(l.strip().split(" ")[0].replace("class=","").strip('"') for l in p.stdout.splitlines() if l.strip().startswith("class=")))
            res.append({"check":chk,"exit":p.returncode,"violation_lines":sum(1 for l in p.stdout.splitlines() if l.startswith("VIOLATION")),"classes":classes[:5]})
            print(fid,chk,"exit",p.returncode,classes[:3])
    finally:
        subprocess.run(["git","-C","/repo","checkout","--","."])
    out[fid]={"commit":commit,"property":prop,"what_failed":what,"revert_applies":True,"checks_on_reverted_tree":res,"redetected":any(r["exit"]==1 for r in res)}
    json.dump(out,open("/verif/fix_reverts.json","w"),indent=1)
# known_findings.json: fixed entries (suppress nothing)
kf={"comment":"Genuine defects of cloudwego/sonic-rs confirmed by the checks. status=known entries are matched by (property, violation class prefix) and downgrade exactly those violations to KNOWN-FINDING lines; status=fixed entries suppress nothing (the check reports the violation again if it returns). Never written at run time.","findings":[]}
for fid, commit, prop, checks, what in FIX:
    kf["findings"].append({"id":fid,"property":prop,"status":"fixed","commit":commit,"line":f"fixed: property={prop} {commit} {what}","what":what,"checks":checks})
# status=known entries are maintained by hand: carry them over
try:
    prev=json.load(open("/verif/known_findings.json"))
    kf["comment"]=prev.get("comment",kf["comment"])
    kf["findings"].extend(f for f in prev.get("findings",[]) if f.get("status")!="fixed")
except FileNotFoundError:
    pass
json.dump(kf,open("/verif/known_findings.json","w"),indent=1)
print("done")
