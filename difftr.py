"""Engine E6: compare the per-chunk transcript digests of two builds of the same tree."""
import json, os, subprocess

def diff(root, prop, tier, parts):
    if len(parts) != 2:
        print(f"MACHINERY-ERROR property={prop} transcript differencing needs exactly two runs")
        return 2
    a, b = parts
    da = {(x[0], x[1]): x[2] for x in a.get("chunk_digests", [])}
    db = {(x[0], x[1]): x[2] for x in b.get("chunk_digests", [])}
    if not da or set(da) != set(db):
        if a.get("capped") or b.get("capped") or a.get("crashed_cases") or b.get("crashed_cases"):
            # a crashing build has no digest for the crashed chunks; the crash itself is the verdict
            common = set(da) & set(db)
        else:
            print(f"MACHINERY-ERROR property={prop} the two builds enumerated different chunk sets ({len(da)} vs {len(db)})")
            return 2
    else:
        common = set(da)
    bad = sorted(k for k in common if da[k] != db[k])
    fams = [f["name"] for f in a["families"]]
    info = {"chunks_compared": len(common), "chunks_differing": len(bad), "variants": [a["variant"], b["variant"]]}
    a.setdefault("notes", {})["transcript_chunks_compared"] = len(common)
    a["notes"]["transcript_chunks_differing"] = len(bad)
    rc = 0
    rdir = os.path.join(root, "replays", prop)
    os.makedirs(rdir, exist_ok=True)
    for n, (fi, c) in enumerate(bad[:5]):
        fam = fams[fi]
        lo = c * 64
        first = None
        for idx in range(lo, lo + 64):
            ds = []
            for v in (a["variant"], b["variant"]):
                exe = os.path.join(root, "bin", f"mc-{v}")
                p = subprocess.run([exe, "case", prop, "--tier", tier, "--variant", v, "--family", fam, "--idx", str(idx), "--transcript"],
                                   capture_output=True, text=True)
                d = [l for l in p.stdout.splitlines() if l.startswith("TRANSCRIPT ")]
                ds.append(d[0] if d else f"exit{p.returncode}")
            if ds[0] != ds[1]:
                first = (idx, ds)
                break
        path = os.path.join(rdir, f"build-diff-{n}.json")
        rec = {"property": prop, "tier": tier, "variant": a["variant"], "family": fam, "idx": first[0] if first else lo,
               "class": "builds-disagree", "detail": {"chunk": [lo, lo + 64], "first_differing_case": first[0] if first else None,
               "transcripts": first[1] if first else None, "variants": [a["variant"], b["variant"]],
               "how": "run `mc-<variant> case C17 --family F --idx I` in both builds and compare the printed observations"}}
        json.dump(rec, open(path, "w"), indent=1)
        print(f"VIOLATION property={prop} replay={path}")
        print(f"  class=builds-disagree family={fam} first_differing_case={first[0] if first else '?'}")
        rc = 1
    if bad:
        a["violations_unknown"] = a.get("violations_unknown", 0) + len(bad)
    print(f"TRANSCRIPTS property={prop} chunks_compared={info['chunks_compared']} differing={info['chunks_differing']}")
    return rc
